package sym

import (
	"fmt"
	"go/types"

	"golang.org/x/tools/go/ssa"
)

// Value is one of:
//   *Term      scalar (bool, integer, float, string as Int code)
//   *Pointer   address of a cell inside an Object (nil pointer: Obj == nil)
//   *StructV   struct value (value semantics: copied on load/store)
//   *ArrayV    array value
//   *SliceV    slice header (nil slice: Arr == nil)
//   *BytesV    opaque symbolic []byte (code term of Int sort; length = bytes.len(code))
//   *MapV      map reference (nil map: M == nil)
//   *ChanV     channel reference (nil chan: C == nil)
//   *IfaceV    interface value (nil interface: Typ == nil)
//   *FuncV     function value / closure (nil func: Fn == nil && Builtin == "")
//   TupleV     multiple results
//   *OpaqueV   value of an external type the engine does not look into
type Value interface{}

type Object struct {
	ID   int
	Val  Value // root cell content
	Typ  types.Type
	Note string // for diagnostics ("alloc at ...")
	// lockset/race bookkeeping hooks can be attached later
}

type Pointer struct {
	Obj  *Object
	Path []int
}

type StructV struct{ F []Value }
type ArrayV struct{ E []Value }

type SliceV struct {
	Arr      *Object // Object whose Val is *ArrayV
	Off      int
	Len, Cap int
}

type BytesV struct {
	Code *Term // Int sort; 0 = empty/nil
}

type MapEntry struct {
	Key, Val Value
	Deleted  bool
}

type MapObj struct {
	ID      int
	Entries []*MapEntry
	Typ     *types.Map
}

type MapV struct{ M *MapObj }

type ChanObj struct {
	ID     int
	Buf    []Value
	Cap    int
	Closed bool
	Elem   types.Type
	// rendezvous for unbuffered channels is not modelled (none in scope); Cap==0 sends block forever unless a receiver is waiting
	Tag string // e.g. "ticker:<ns>" for channels fed by the engine clock
}

type ChanV struct{ C *ChanObj }

type IfaceV struct {
	Typ types.Type // dynamic type; nil for nil interface
	Val Value
}

type FuncV struct {
	Fn       *ssa.Function
	Bindings []Value
	Builtin  string
	// bound method closure produced by the engine (e.g. for method values)
	Recv Value
}

type TupleV []Value

type OpaqueV struct {
	Tag  string
	Data interface{}
}

func (p *Pointer) IsNil() bool { return p == nil || p.Obj == nil }

func (e *Exec) newObject(t types.Type, v Value, note string) *Object {
	e.nextObj++
	return &Object{ID: e.nextObj, Val: v, Typ: t, Note: note}
}

// zero returns the zero value of Go type t.
func (e *Exec) zero(t types.Type) Value {
	switch u := t.Underlying().(type) {
	case *types.Basic:
		switch {
		case u.Info()&types.IsBoolean != 0:
			return e.C.False
		case u.Info()&types.IsString != 0:
			return e.C.Str("")
		case u.Info()&types.IsFloat != 0:
			if u.Kind() == types.Float32 {
				return e.C.FPConst32(0)
			}
			return e.C.FPConst64(0)
		case u.Info()&types.IsInteger != 0:
			return e.C.BVConst(intWidth(u), 0)
		case u.Kind() == types.UnsafePointer:
			return &Pointer{}
		case u.Kind() == types.UntypedNil:
			return &Pointer{}
		case u.Info()&types.IsComplex != 0:
			return &OpaqueV{Tag: "complex"}
		}
	case *types.Pointer:
		return &Pointer{}
	case *types.Struct:
		s := &StructV{F: make([]Value, u.NumFields())}
		for i := range s.F {
			s.F[i] = e.zero(u.Field(i).Type())
		}
		return s
	case *types.Array:
		n := int(u.Len())
		if n > 4096 {
			// large arrays (tables in deps) are not materialised
			return &OpaqueV{Tag: "bigarray"}
		}
		a := &ArrayV{E: make([]Value, n)}
		for i := range a.E {
			a.E[i] = e.zero(u.Elem())
		}
		return a
	case *types.Slice:
		return &SliceV{}
	case *types.Map:
		return &MapV{}
	case *types.Chan:
		return &ChanV{}
	case *types.Interface:
		return &IfaceV{}
	case *types.Signature:
		return &FuncV{}
	case *types.Tuple:
		tv := make(TupleV, u.Len())
		for i := range tv {
			tv[i] = e.zero(u.At(i).Type())
		}
		return tv
	case *types.TypeParam:
		return &OpaqueV{Tag: "typeparam"}
	}
	panic(fmt.Sprintf("zero: unsupported type %v (%T)", t, t.Underlying()))
}

func intWidth(b *types.Basic) int {
	switch b.Kind() {
	case types.Int8, types.Uint8:
		return 8
	case types.Int16, types.Uint16:
		return 16
	case types.Int32, types.Uint32:
		return 32
	case types.Int, types.Uint, types.Int64, types.Uint64, types.Uintptr, types.UntypedInt, types.UntypedRune:
		return 64
	}
	panic("intWidth: " + b.String())
}

func isSigned(t types.Type) bool {
	b, ok := t.Underlying().(*types.Basic)
	return ok && b.Info()&types.IsInteger != 0 && b.Info()&types.IsUnsigned == 0
}

func isFloat(t types.Type) bool {
	b, ok := t.Underlying().(*types.Basic)
	return ok && b.Info()&types.IsFloat != 0
}

func isInteger(t types.Type) bool {
	b, ok := t.Underlying().(*types.Basic)
	return ok && b.Info()&types.IsInteger != 0
}

func isString(t types.Type) bool {
	b, ok := t.Underlying().(*types.Basic)
	return ok && b.Info()&types.IsString != 0
}

// copyVal produces an independent copy of aggregate values (struct/array value semantics).
func copyVal(v Value) Value {
	switch x := v.(type) {
	case *StructV:
		n := &StructV{F: make([]Value, len(x.F))}
		for i, f := range x.F {
			n.F[i] = copyVal(f)
		}
		return n
	case *ArrayV:
		n := &ArrayV{E: make([]Value, len(x.E))}
		for i, f := range x.E {
			n.E[i] = copyVal(f)
		}
		return n
	case TupleV:
		n := make(TupleV, len(x))
		for i, f := range x {
			n[i] = copyVal(f)
		}
		return n
	}
	return v
}

// cell navigation ----------------------------------------------------------

func (e *Exec) load(p *Pointer) Value {
	if p.IsNil() {
		e.fail("nil-deref", "nil pointer dereference (load)")
	}
	v := p.Obj.Val
	for _, i := range p.Path {
		switch x := v.(type) {
		case *StructV:
			v = x.F[i]
		case *ArrayV:
			if i < 0 || i >= len(x.E) {
				e.fail("index-range", "array index out of range")
			}
			v = x.E[i]
		default:
			e.unsupported(fmt.Sprintf("load through %T (object %s)", v, p.Obj.Note))
		}
	}
	return copyVal(v)
}

func (e *Exec) store(p *Pointer, nv Value) {
	if p.IsNil() {
		e.fail("nil-deref", "nil pointer dereference (store)")
	}
	nv = copyVal(nv)
	if len(p.Path) == 0 {
		p.Obj.Val = nv
		return
	}
	v := p.Obj.Val
	for k, i := range p.Path {
		last := k == len(p.Path)-1
		switch x := v.(type) {
		case *StructV:
			if last {
				x.F[i] = nv
				return
			}
			v = x.F[i]
		case *ArrayV:
			if i < 0 || i >= len(x.E) {
				e.fail("index-range", "array index out of range")
			}
			if last {
				x.E[i] = nv
				return
			}
			v = x.E[i]
		default:
			e.unsupported(fmt.Sprintf("store through %T (object %s)", v, p.Obj.Note))
		}
	}
}

func (p *Pointer) sub(i int) *Pointer {
	np := make([]int, len(p.Path)+1)
	copy(np, p.Path)
	np[len(p.Path)] = i
	return &Pointer{Obj: p.Obj, Path: np}
}

func samePointer(a, b *Pointer) bool {
	if a.IsNil() || b.IsNil() {
		return a.IsNil() && b.IsNil()
	}
	if a.Obj != b.Obj || len(a.Path) != len(b.Path) {
		return false
	}
	for i := range a.Path {
		if a.Path[i] != b.Path[i] {
			return false
		}
	}
	return true
}
