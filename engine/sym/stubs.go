package sym

import (
	"fmt"
	"go/types"
	"sort"
	"strings"

	"golang.org/x/tools/go/ssa"
)

// implementsError: the dynamic type has an Error() string method.
func implementsError(t types.Type) bool {
	ms := types.NewMethodSet(t)
	for i := 0; i < ms.Len(); i++ {
		if ms.At(i).Obj().Name() == "Error" {
			return true
		}
	}
	return false
}

// unwrapAll returns the errors an error value wraps (fmt.Errorf with %w, go-tooling rich errors).
func unwrapAll(cur *IfaceV) []*IfaceV {
	switch v := cur.Val.(type) {
	case *OpaqueV:
		if ws, ok := v.Data.([]*IfaceV); ok {
			return ws
		}
	case *StructV:
		if st, ok := cur.Typ.Underlying().(*types.Struct); ok {
			for i := 0; i < st.NumFields(); i++ {
				if st.Field(i).Name() == "wrappedErr" {
					if next, ok := v.F[i].(*IfaceV); ok && next != nil && next.Typ != nil {
						return []*IfaceV{next}
					}
				}
			}
		}
	}
	return nil
}

type interceptFn func(e *Exec, fv *FuncV, args []Value, cc *ssa.CallCommon) (Value, bool)

var intercepts = map[string]interceptFn{}

// StubsUsed collects the names of every intercepted function reached (reported as assumptions).
func (e *Exec) noteStub(name string) {
	if e.ext["stubs"] == nil {
		e.ext["stubs"] = map[string]bool{}
	}
	e.ext["stubs"].(map[string]bool)[name] = true
}

func (e *Exec) StubsUsed() []string {
	m, _ := e.ext["stubs"].(map[string]bool)
	var out []string
	for k := range m {
		out = append(out, k)
	}
	sort.Strings(out)
	return out
}

// packages whose functions are replaced wholesale by no-ops returning zero/opaque results.
var noopPackages = []string{
	"github.com/aukilabs/go-tooling/pkg/logs",
	"log", "log/slog",
}

func fnPkgPath(fn *ssa.Function) string {
	if fn.Pkg != nil {
		return fn.Pkg.Pkg.Path()
	}
	if o := fn.Object(); o != nil && o.Pkg() != nil {
		return o.Pkg().Path()
	}
	if fn.Parent() != nil {
		return fnPkgPath(fn.Parent())
	}
	return ""
}

func (e *Exec) stubResult(sig *types.Signature, tag string) Value {
	rs := sig.Results()
	mk := func(t types.Type) Value {
		if types.IsInterface(t) {
			if t.String() == "error" {
				return &IfaceV{}
			}
			return &IfaceV{Typ: t, Val: &OpaqueV{Tag: tag}}
		}
		return e.zero(t)
	}
	switch rs.Len() {
	case 0:
		return nil
	case 1:
		return mk(rs.At(0).Type())
	}
	tv := make(TupleV, rs.Len())
	for i := range tv {
		tv[i] = mk(rs.At(i).Type())
	}
	return tv
}

func (e *Exec) packageStub(fn *ssa.Function, args []Value, cc *ssa.CallCommon) (Value, bool) {
	var pp string
	if v, ok := e.P.pkgPaths.Load(fn); ok {
		pp = v.(string)
	} else {
		pp = fnPkgPath(fn)
		e.P.pkgPaths.Store(fn, pp)
	}
	for _, np := range noopPackages {
		if pp == np {
			e.noteStub(pp + ".* (no-op)")
			return e.stubResult(fn.Signature, "stub:"+pp), true
		}
	}
	return nil, false
}

// opaqueMethod handles a method call on an opaque value.
func (e *Exec) opaqueMethod(fv *FuncV, args []Value, cc *ssa.CallCommon) Value {
	ov := fv.Recv.(*OpaqueV)
	m := strings.TrimPrefix(fv.Builtin, "opaque-method:")
	switch ov.Tag {
	case "gauge":
		switch m {
		case "Inc":
			e.gaugeAdd(ov.Data.(string), 1)
		case "Dec":
			e.gaugeAdd(ov.Data.(string), -1)
		case "Add", "Sub", "Set":
			e.unsupported("gauge." + m)
		}
		return nil
	case "ctx":
		co := ov.Data.(*ctxObj)
		switch m {
		case "Err":
			if co.cancelled() {
				return &IfaceV{Typ: errType(e), Val: &OpaqueV{Tag: "err:context canceled"}}
			}
			return &IfaceV{}
		case "Done":
			return &ChanV{C: co.doneChan(e)}
		case "Value":
			return &IfaceV{}
		case "Deadline":
			return TupleV{e.zero(cc.Signature().Results().At(0).Type()), e.C.False}
		}
	}
	if ov.Tag == "ctx-cancel" {
		co := ov.Data.(*ctxObj)
		co.canc = true
		if co.done != nil {
			co.done.Closed = true
		}
		// children created earlier share cancellation through parent links (checked lazily); close their done channels too
		if kids, ok := e.ext["ctxkids"].(map[*ctxObj][]*ctxObj); ok {
			var walk func(*ctxObj)
			walk = func(x *ctxObj) {
				for _, k := range kids[x] {
					if k.done != nil {
						k.done.Closed = true
					}
					walk(k)
				}
			}
			walk(co)
		}
		return nil
	}
	if strings.HasPrefix(ov.Tag, "err:") && m == "Error" {
		return e.C.Str(strings.TrimPrefix(ov.Tag, "err:"))
	}
	if ov.Tag == "reflect.Type" && m == "String" {
		return e.C.Str(ov.Data.(string))
	}
	e.noteStub("method " + m + " on opaque " + ov.Tag + " (no-op)")
	return e.stubResult(cc.Signature(), ov.Tag)
}

func errType(e *Exec) types.Type {
	return types.Universe.Lookup("error").Type()
}

// ---- context model ----

type ctxObj struct {
	parent *ctxObj
	canc   bool
	done   *ChanObj
}

func (c *ctxObj) cancelled() bool {
	for x := c; x != nil; x = x.parent {
		if x.canc {
			return true
		}
	}
	return false
}

func (c *ctxObj) doneChan(e *Exec) *ChanObj {
	if c.done == nil {
		e.nextObj++
		c.done = &ChanObj{ID: e.nextObj, Cap: 0, Elem: types.NewStruct(nil, nil), Tag: "ctx.done"}
		if c.cancelled() {
			c.done.Closed = true
		}
	}
	return c.done
}

func (e *Exec) ctxValue(co *ctxObj, t types.Type) Value {
	return &IfaceV{Typ: t, Val: &OpaqueV{Tag: "ctx", Data: co}}
}

func ctxOf(v Value) *ctxObj {
	iv, ok := v.(*IfaceV)
	if !ok || iv.Typ == nil {
		return nil
	}
	ov, ok := iv.Val.(*OpaqueV)
	if !ok || ov.Tag != "ctx" {
		return nil
	}
	return ov.Data.(*ctxObj)
}

// ---- mutex model ----

type muState struct {
	writer  *Thread
	pending map[*Thread]bool // writers blocked in Lock: Go's RWMutex makes new readers wait behind them
	readers map[*Thread]int
	obj     *Object
	key     string
}

func (e *Exec) muOf(p *Pointer) *muState {
	if p.IsNil() {
		e.fail("nil-deref", "nil mutex")
	}
	key := fmt.Sprintf("mu:%d:%v", p.Obj.ID, p.Path)
	if s, ok := e.ext[key]; ok {
		return s.(*muState)
	}
	s := &muState{readers: map[*Thread]int{}, pending: map[*Thread]bool{}, obj: p.Obj, key: key}
	e.ext[key] = s
	return s
}

type onceState struct {
	done    bool
	running *Thread
}

type wgState struct{ n int }

func init() {
	reg := func(name string, f interceptFn) { intercepts[name] = f }

	// --- sync ---
	lock := func(write bool) interceptFn {
		return func(e *Exec, fv *FuncV, args []Value, cc *ssa.CallCommon) (Value, bool) {
			m := e.muOf(args[0].(*Pointer))
			e.schedPoint("lock")
			if write {
				if m.writer != nil || len(m.readers) > 0 {
					if m.writer == e.cur {
						e.cur.Wait = "re-entrant Lock of a mutex it already holds (" + m.key + ")"
					} else {
						e.cur.Wait = "Lock " + m.key
					}
					if !e.probing {
						m.pending[e.cur] = true
					}
					return nil, true
				}
				if e.probing {
					panic(probeOK{})
				}
				delete(m.pending, e.cur)
				m.writer = e.cur
				e.raceAcquire(m, true)
			} else {
				if m.writer != nil || len(m.pending) > 0 {
					e.cur.Wait = "RLock " + m.key
					if len(m.pending) > 0 && m.readers[e.cur] > 0 {
						e.cur.Wait = "recursive RLock " + m.key + " while a writer is waiting (RWMutex writer preference)"
					}
					return nil, true
				}
				if e.probing {
					panic(probeOK{})
				}
				m.readers[e.cur]++
				e.raceAcquire(m, false)
			}
			return nil, false
		}
	}
	unlock := func(write bool) interceptFn {
		return func(e *Exec, fv *FuncV, args []Value, cc *ssa.CallCommon) (Value, bool) {
			m := e.muOf(args[0].(*Pointer))
			e.schedPoint("unlock")
			if write {
				if m.writer == nil {
					e.fail("unlock-unlocked", "sync: unlock of unlocked mutex")
				}
				e.raceRelease(m, true)
				m.writer = nil
			} else {
				if len(m.readers) == 0 {
					e.fail("unlock-unlocked", "sync: RUnlock of unlocked RWMutex")
				}
				e.raceRelease(m, false)
				// any reader may release (Go allows cross-goroutine unlock); prefer the current thread
				t := e.cur
				if m.readers[t] == 0 {
					for k := range m.readers {
						t = k
						break
					}
				}
				m.readers[t]--
				if m.readers[t] == 0 {
					delete(m.readers, t)
				}
			}
			return nil, false
		}
	}
	reg("(*sync.Mutex).Lock", lock(true))
	reg("(*sync.Mutex).Unlock", unlock(true))
	reg("(*sync.RWMutex).Lock", lock(true))
	reg("(*sync.RWMutex).Unlock", unlock(true))
	reg("(*sync.RWMutex).RLock", lock(false))
	reg("(*sync.RWMutex).RUnlock", unlock(false))

	reg("(*sync.Once).Do", func(e *Exec, fv *FuncV, args []Value, cc *ssa.CallCommon) (Value, bool) {
		p := args[0].(*Pointer)
		key := fmt.Sprintf("once:%d:%v", p.Obj.ID, p.Path)
		st, _ := e.ext[key].(*onceState)
		if st == nil {
			st = &onceState{}
			e.ext[key] = st
		}
		e.schedPoint("once")
		if st.done {
			e.raceOnceObserve(key)
			return nil, false
		}
		if st.running != nil {
			if st.running == e.cur {
				e.cur.Wait = "recursive sync.Once.Do"
			} else {
				e.cur.Wait = "sync.Once.Do in progress on another goroutine"
			}
			return nil, true
		}
		if e.probing {
			panic(probeOK{})
		}
		st.running = e.cur
		f := args[1].(*FuncV)
		r, handled, blocked := e.dispatch(f, nil, cc, nil)
		_ = r
		if blocked {
			e.unsupported("Once.Do of blocking intercept")
		}
		if handled {
			st.done, st.running = true, nil
			e.raceOncePublish(key)
			return nil, false
		}
		e.pushCall(f, nil, nil, func(Value) {
			st.done, st.running = true, nil
			e.raceOncePublish(key)
		})
		return nil, false
	})

	wg := func(e *Exec, p *Pointer) *wgState {
		key := fmt.Sprintf("wg:%d:%v", p.Obj.ID, p.Path)
		st, _ := e.ext[key].(*wgState)
		if st == nil {
			st = &wgState{}
			e.ext[key] = st
		}
		return st
	}
	reg("(*sync.WaitGroup).Add", func(e *Exec, fv *FuncV, args []Value, cc *ssa.CallCommon) (Value, bool) {
		st := wg(e, args[0].(*Pointer))
		st.n += e.concreteInt(args[1], "WaitGroup delta")
		if st.n < 0 {
			e.fail("waitgroup-negative", "sync: negative WaitGroup counter")
		}
		return nil, false
	})
	reg("(*sync.WaitGroup).Done", func(e *Exec, fv *FuncV, args []Value, cc *ssa.CallCommon) (Value, bool) {
		st := wg(e, args[0].(*Pointer))
		e.schedPoint("wg.Done")
		st.n--
		if st.n < 0 {
			e.fail("waitgroup-negative", "sync: negative WaitGroup counter")
		}
		e.raceWgDone(st)
		return nil, false
	})
	reg("(*sync.WaitGroup).Wait", func(e *Exec, fv *FuncV, args []Value, cc *ssa.CallCommon) (Value, bool) {
		st := wg(e, args[0].(*Pointer))
		e.schedPoint("wg.Wait")
		if st.n > 0 {
			e.cur.Wait = "WaitGroup.Wait"
			return nil, true
		}
		if e.probing {
			panic(probeOK{})
		}
		e.raceWgWait(st)
		return nil, false
	})

	// --- sync.Map: an association list per map object (keys compared with Go's == on interface values) ---
	type smEntry struct{ k, v *IfaceV }
	smOf := func(e *Exec, p *Pointer) *[]smEntry {
		key := fmt.Sprintf("syncmap:%d:%v", p.Obj.ID, p.Path)
		l, _ := e.ext[key].(*[]smEntry)
		if l == nil {
			l = &[]smEntry{}
			e.ext[key] = l
		}
		return l
	}
	smFind := func(e *Exec, l *[]smEntry, k *IfaceV) int {
		for i, en := range *l {
			if e.Branch(e.equal(en.k, k, nil)) {
				return i
			}
		}
		return -1
	}
	reg("(*sync.Map).Load", func(e *Exec, fv *FuncV, args []Value, cc *ssa.CallCommon) (Value, bool) {
		l := smOf(e, args[0].(*Pointer))
		e.schedPoint("syncmap")
		if i := smFind(e, l, args[1].(*IfaceV)); i >= 0 {
			return TupleV{(*l)[i].v, e.C.True}, false
		}
		return TupleV{&IfaceV{}, e.C.False}, false
	})
	reg("(*sync.Map).Store", func(e *Exec, fv *FuncV, args []Value, cc *ssa.CallCommon) (Value, bool) {
		l := smOf(e, args[0].(*Pointer))
		e.schedPoint("syncmap")
		if i := smFind(e, l, args[1].(*IfaceV)); i >= 0 {
			(*l)[i].v = args[2].(*IfaceV)
		} else {
			*l = append(*l, smEntry{args[1].(*IfaceV), args[2].(*IfaceV)})
		}
		return nil, false
	})
	reg("(*sync.Map).LoadOrStore", func(e *Exec, fv *FuncV, args []Value, cc *ssa.CallCommon) (Value, bool) {
		l := smOf(e, args[0].(*Pointer))
		e.schedPoint("syncmap")
		if i := smFind(e, l, args[1].(*IfaceV)); i >= 0 {
			return TupleV{(*l)[i].v, e.C.True}, false
		}
		*l = append(*l, smEntry{args[1].(*IfaceV), args[2].(*IfaceV)})
		return TupleV{args[2], e.C.False}, false
	})
	reg("(*sync.Map).Delete", func(e *Exec, fv *FuncV, args []Value, cc *ssa.CallCommon) (Value, bool) {
		l := smOf(e, args[0].(*Pointer))
		e.schedPoint("syncmap")
		if i := smFind(e, l, args[1].(*IfaceV)); i >= 0 {
			*l = append((*l)[:i:i], (*l)[i+1:]...)
		}
		return nil, false
	})

	// --- context ---
	reg("context.Background", func(e *Exec, fv *FuncV, args []Value, cc *ssa.CallCommon) (Value, bool) {
		return e.ctxValue(&ctxObj{}, fv.Fn.Signature.Results().At(0).Type()), false
	})
	intercepts["context.TODO"] = intercepts["context.Background"]
	reg("context.WithCancel", func(e *Exec, fv *FuncV, args []Value, cc *ssa.CallCommon) (Value, bool) {
		parent := ctxOf(args[0])
		co := &ctxObj{parent: parent}
		kids, _ := e.ext["ctxkids"].(map[*ctxObj][]*ctxObj)
		if kids == nil {
			kids = map[*ctxObj][]*ctxObj{}
			e.ext["ctxkids"] = kids
		}
		kids[parent] = append(kids[parent], co)
		ct := fv.Fn.Signature.Results().At(0).Type()
		return TupleV{e.ctxValue(co, ct), &FuncV{Builtin: "opaque-method:cancel", Recv: &OpaqueV{Tag: "ctx-cancel", Data: co}}}, false
	})

	// deadlines: the context is cancellable; its deadline never elapses on its own (time passes only through the
	// harness), which is stated as an assumption whenever this stub is reached
	withCancelLike := func(e *Exec, fv *FuncV, args []Value, cc *ssa.CallCommon) (Value, bool) {
		return intercepts["context.WithCancel"](e, fv, args[:1], cc)
	}
	reg("context.WithTimeout", withCancelLike)
	reg("context.WithDeadline", withCancelLike)
	reg("context.WithValue", func(e *Exec, fv *FuncV, args []Value, cc *ssa.CallCommon) (Value, bool) {
		return args[0], false // values are only read by logging in the code in scope
	})

	// --- errors (go-tooling) ---
	reg("github.com/aukilabs/go-tooling/pkg/errors.makeRichError", func(e *Exec, fv *FuncV, args []Value, cc *ssa.CallCommon) (Value, bool) {
		st := fv.Fn.Signature.Results().At(0).Type()
		v := e.zero(st).(*StructV)
		s := st.Underlying().(*types.Struct)
		for i := 0; i < s.NumFields(); i++ {
			if s.Field(i).Name() == "message" {
				v.F[i] = args[0]
			}
		}
		return v, false
	})
	reg("(github.com/aukilabs/go-tooling/pkg/errors.richError).WithTag", func(e *Exec, fv *FuncV, args []Value, cc *ssa.CallCommon) (Value, bool) {
		rt := fv.Fn.Signature.Recv().Type()
		return &IfaceV{Typ: rt, Val: args[0]}, false
	})
	reg("reflect.TypeOf", func(e *Exec, fv *FuncV, args []Value, cc *ssa.CallCommon) (Value, bool) {
		iv := args[0].(*IfaceV)
		name := "<nil>"
		if iv.Typ != nil {
			name = types.TypeString(iv.Typ, func(p *types.Package) string { return p.Name() })
		}
		return &IfaceV{Typ: fv.Fn.Signature.Results().At(0).Type(), Val: &OpaqueV{Tag: "reflect.Type", Data: name}}, false
	})

	// --- fmt ---
	reg("fmt.Sprintf", func(e *Exec, fv *FuncV, args []Value, cc *ssa.CallCommon) (Value, bool) {
		return e.sprintf(args[0], args[1]), false
	})
	reg("fmt.Sprint", func(e *Exec, fv *FuncV, args []Value, cc *ssa.CallCommon) (Value, bool) {
		return e.sprintf(e.C.Str("%v"), args[0]), false
	})
	reg("fmt.Errorf", func(e *Exec, fv *FuncV, args []Value, cc *ssa.CallCommon) (Value, bool) {
		// the message is not modelled; with %w the error operands are kept so that errors.Is / Unwrap see through
		ov := &OpaqueV{Tag: "err:fmt.Errorf"}
		if f, ok := e.C.StrValue(args[0].(*Term)); ok && strings.Contains(f, "%w") {
			if sl, ok := args[1].(*SliceV); ok && sl.Arr != nil {
				var wrapped []*IfaceV
				for i := 0; i < sl.Len; i++ {
					if iv, ok := sl.Arr.Val.(*ArrayV).E[sl.Off+i].(*IfaceV); ok && iv.Typ != nil && implementsError(iv.Typ) {
						wrapped = append(wrapped, iv)
					}
				}
				ov.Data = wrapped
			}
		}
		return &IfaceV{Typ: errType(e), Val: ov}, false
	})
	reg("errors.Is", func(e *Exec, fv *FuncV, args []Value, cc *ssa.CallCommon) (Value, bool) {
		target, _ := args[1].(*IfaceV)
		var walk func(cur *IfaceV, depth int) bool
		walk = func(cur *IfaceV, depth int) bool {
			if cur == nil || cur.Typ == nil || depth > 16 {
				return target == nil || target.Typ == nil && (cur == nil || cur.Typ == nil)
			}
			if target != nil && target.Typ != nil && types.Identical(cur.Typ, target.Typ) {
				switch a := cur.Val.(type) {
				case *Pointer:
					if b, ok := target.Val.(*Pointer); ok && a.Obj == b.Obj && fmt.Sprint(a.Path) == fmt.Sprint(b.Path) {
						return true
					}
				case *OpaqueV:
					if a == target.Val {
						return true
					}
				}
			}
			for _, w := range unwrapAll(cur) {
				if walk(w, depth+1) {
					return true
				}
			}
			return false
		}
		first, _ := args[0].(*IfaceV)
		return e.C.Bool(walk(first, 0)), false
	})
	reg("errors.Unwrap", func(e *Exec, fv *FuncV, args []Value, cc *ssa.CallCommon) (Value, bool) {
		if iv, ok := args[0].(*IfaceV); ok {
			if ws := unwrapAll(iv); len(ws) == 1 {
				return ws[0], false
			}
		}
		return &IfaceV{}, false
	})

	// --- uuid ---
	reg("github.com/google/uuid.New", func(e *Exec, fv *FuncV, args []Value, cc *ssa.CallCommon) (Value, bool) {
		return e.zero(fv.Fn.Signature.Results().At(0).Type()), false
	})
	reg("(github.com/google/uuid.UUID).String", func(e *Exec, fv *FuncV, args []Value, cc *ssa.CallCommon) (Value, bool) {
		return e.freshUUID(), false
	})
	reg("github.com/google/uuid.NewString", func(e *Exec, fv *FuncV, args []Value, cc *ssa.CallCommon) (Value, bool) {
		return e.freshUUID(), false
	})

	// --- bytes ---
	reg("bytes.Equal", func(e *Exec, fv *FuncV, args []Value, cc *ssa.CallCommon) (Value, bool) {
		a, b := e.bytesCode(args[0]), e.bytesCode(args[1])
		return e.C.Eq(a, b), false
	})

	// --- prometheus ---
	// constructors (package initialisers of the repository): an opaque handle, named after the variable it is
	// assigned to once the initialiser has run
	for _, ctor := range []string{"NewGaugeVec", "NewCounterVec", "NewHistogramVec", "NewSummaryVec", "NewGauge", "NewCounter", "NewHistogram", "NewSummary"} {
		for _, pk := range []string{"github.com/prometheus/client_golang/prometheus/promauto.", "github.com/prometheus/client_golang/prometheus."} {
			reg(pk+ctor, func(e *Exec, fv *FuncV, args []Value, cc *ssa.CallCommon) (Value, bool) {
				rt := fv.Fn.Signature.Results().At(0).Type()
				if pt, ok := rt.Underlying().(*types.Pointer); ok {
					return &Pointer{Obj: e.newObject(pt.Elem(), &OpaqueV{Tag: "prom:pending"}, "metric")}, false
				}
				return &IfaceV{Typ: rt, Val: &OpaqueV{Tag: "prom:pending"}}, false
			})
		}
	}
	vecWith := func(kind string) interceptFn {
		return func(e *Exec, fv *FuncV, args []Value, cc *ssa.CallCommon) (Value, bool) {
			p := args[0].(*Pointer)
			tag := "?"
			if !p.IsNil() {
				if ov, ok := p.Obj.Val.(*OpaqueV); ok {
					tag = ov.Tag
				}
			}
			key := tag
			if lm, ok := args[1].(*MapV); ok && lm.M != nil {
				var parts []string
				for _, en := range lm.M.Entries {
					k, _ := e.C.StrValue(en.Key.(*Term))
					vt := en.Val.(*Term)
					vs, okc := e.C.StrValue(vt)
					if !okc {
						vs = fmt.Sprintf("t%d", vt.ID)
					}
					parts = append(parts, k+"="+vs)
				}
				sort.Strings(parts)
				key += "{" + strings.Join(parts, ",") + "}"
			}
			return &IfaceV{Typ: fv.Fn.Signature.Results().At(0).Type(), Val: &OpaqueV{Tag: kind, Data: key}}, false
		}
	}
	reg("(*github.com/prometheus/client_golang/prometheus.GaugeVec).With", vecWith("gauge"))
	reg("(*github.com/prometheus/client_golang/prometheus.CounterVec).With", vecWith("counter"))
	reg("(*github.com/prometheus/client_golang/prometheus.HistogramVec).With", vecWith("observer"))
	reg("(*github.com/prometheus/client_golang/prometheus.SummaryVec).With", vecWith("observer"))

	// --- net/http headers (only read for log tags) ---
	reg("(net/http.Header).Get", func(e *Exec, fv *FuncV, args []Value, cc *ssa.CallCommon) (Value, bool) {
		return e.C.Str(""), false
	})
	reg("(*net/http.Request).UserAgent", func(e *Exec, fv *FuncV, args []Value, cc *ssa.CallCommon) (Value, bool) {
		return e.C.Str(""), false
	})

	// --- x/net/websocket connection (the socket itself is outside the claim) ---
	reg("(*golang.org/x/net/websocket.Conn).Close", func(e *Exec, fv *FuncV, args []Value, cc *ssa.CallCommon) (Value, bool) {
		n, _ := e.ext["conn.close"].(int)
		e.ext["conn.close"] = n + 1
		return &IfaceV{}, false
	})
	reg("(*golang.org/x/net/websocket.Conn).Request", func(e *Exec, fv *FuncV, args []Value, cc *ssa.CallCommon) (Value, bool) {
		pt := fv.Fn.Signature.Results().At(0).Type().(*types.Pointer)
		return &Pointer{Obj: e.newObject(pt.Elem(), e.zero(pt.Elem()), "http request")}, false
	})
	carrier := func(name string) interceptFn {
		return func(e *Exec, fv *FuncV, args []Value, cc *ssa.CallCommon) (Value, bool) {
			if t, ok := e.ext["carrier."+name].(*Term); ok {
				return t, false
			}
			return e.C.Str(""), false
		}
	}
	reg("github.com/aukilabs/hagall-common/http.tokenFromHeader", carrier("header"))
	reg("github.com/aukilabs/hagall-common/http.tokenFromQuery", carrier("query"))
	reg("github.com/aukilabs/hagall-common/http.tokenFromCookie", carrier("cookie"))
	// access tokens: a deterministic model of golang-jwt (the HMAC/base64/JSON processing is outside the claim).
	// A token made by GenerateHagallUserAccessToken(appKey, secret, ttl) verifies against a key iff the key equals
	// that secret and ttl > 0; every other string is malformed.
	reg("github.com/aukilabs/hagall-common/http.GenerateHagallUserAccessToken", func(e *Exec, fv *FuncV, args []Value, cc *ssa.CallCommon) (Value, bool) {
		n, _ := e.ext["tok.n"].(int)
		n++
		e.ext["tok.n"] = n
		tok := e.C.Str(fmt.Sprintf("token#%d", n))
		toks, _ := e.ext["tokens"].(map[*Term][3]*Term)
		if toks == nil {
			toks = map[*Term][3]*Term{}
			e.ext["tokens"] = toks
		}
		toks[tok] = [3]*Term{args[1].(*Term), args[2].(*Term), e.now()}
		return TupleV{tok, &IfaceV{}}, false
	})
	reg("github.com/golang-jwt/jwt/v4.ParseWithClaims", func(e *Exec, fv *FuncV, args []Value, cc *ssa.CallCommon) (Value, bool) {
		c := e.C
		res := fv.Fn.Signature.Results()
		tokPtr := e.zero(res.At(0).Type())
		// locate *jwt.ValidationError
		var vet *types.Pointer
		if o := fv.Fn.Pkg.Pkg.Scope().Lookup("ValidationError"); o != nil {
			vet = types.NewPointer(o.Type())
		}
		mkErr := func(flags uint64) Value {
			st := vet.Elem().Underlying().(*types.Struct)
			v := e.zero(vet.Elem()).(*StructV)
			for i := 0; i < st.NumFields(); i++ {
				if st.Field(i).Name() == "Errors" {
					v.F[i] = c.BVConst(32, flags)
				}
				if st.Field(i).Name() == "Inner" {
					v.F[i] = &IfaceV{Typ: errType(e), Val: &OpaqueV{Tag: "err:token invalid"}}
				}
			}
			obj := e.newObject(vet.Elem(), v, "jwt.ValidationError")
			return TupleV{tokPtr, &IfaceV{Typ: vet, Val: &Pointer{Obj: obj}}}
		}
		tok := args[0].(*Term)
		toks, _ := e.ext["tokens"].(map[*Term][3]*Term)
		desc, known := toks[tok]
		if !known {
			// decide whether the presented string is one of the generated tokens
			for t, d := range toks {
				if e.Branch(c.Eq(tok, t)) {
					desc, known = d, true
					break
				}
			}
		}
		if !known {
			return mkErr(1), false // ValidationErrorMalformed
		}
		kf, _ := args[2].(*FuncV)
		if kf == nil || (kf.Fn == nil && kf.Builtin == "") {
			return mkErr(2), false // unverifiable
		}
		kr := e.callSync(kf, []Value{tokPtr}).(TupleV)
		keyIface := kr[0].(*IfaceV)
		if keyIface.Typ == nil {
			return mkErr(2), false
		}
		keyCode := e.bytesCode(keyIface.Val)
		if !e.Branch(c.Eq(keyCode, desc[0])) {
			return mkErr(4), false // ValidationErrorSignatureInvalid
		}
		// expired once ttl has elapsed since it was issued (on the engine's clock)
		elapsed := c.BVSub(e.now(), desc[2])
		if !e.Branch(c.SLT(elapsed, desc[1])) {
			return mkErr(16), false // ValidationErrorExpired
		}
		return TupleV{tokPtr, &IfaceV{}}, false
	})
	asStub := func(e *Exec, fv *FuncV, args []Value, cc *ssa.CallCommon) (Value, bool) {
		err := args[0].(*IfaceV)
		tgt := args[1].(*IfaceV)
		tp := tgt.Val.(*Pointer)
		want := tgt.Typ.Underlying().(*types.Pointer).Elem()
		for cur := err; cur != nil && cur.Typ != nil; {
			if types.Identical(cur.Typ, want) {
				e.store(tp, cur.Val)
				return e.C.True, false
			}
			// unwrap go-tooling rich errors
			if sv, ok := cur.Val.(*StructV); ok {
				var next *IfaceV
				if st, ok := cur.Typ.Underlying().(*types.Struct); ok {
					for i := 0; i < st.NumFields(); i++ {
						if st.Field(i).Name() == "wrappedErr" {
							next, _ = sv.F[i].(*IfaceV)
						}
					}
				}
				cur = next
				continue
			}
			break
		}
		return e.C.False, false
	}
	reg("github.com/aukilabs/go-tooling/pkg/errors.As", asStub)
	reg("errors.As", asStub)
	reg("github.com/aukilabs/hagall-common/http.GetAppKeyFromHagallUserToken", func(e *Exec, fv *FuncV, args []Value, cc *ssa.CallCommon) (Value, bool) {
		return e.C.Str(""), false
	})

	// --- sort ---
	reg("sort.Slice", func(e *Exec, fv *FuncV, args []Value, cc *ssa.CallCommon) (Value, bool) {
		e.sortSlice(args[0], args[1].(*FuncV))
		return nil, false
	})
}

type probeOK struct{}

func (e *Exec) freshUUID() *Term {
	n, _ := e.ext["uuid"].(int)
	n++
	e.ext["uuid"] = n
	return e.C.Str(fmt.Sprintf("uuid#%d", n))
}

// bytesCode maps a byte-slice value to its Int code.
func (e *Exec) bytesCode(v Value) *Term {
	switch x := v.(type) {
	case *BytesV:
		return x.Code
	case *SliceV:
		if b, ok := e.concreteBytes(x); ok {
			return e.C.Str(string(b))
		}
	}
	e.unsupported(fmt.Sprintf("bytes code of %T", v))
	return nil
}

// sprintf: concrete when all operands are concrete, otherwise an injective uninterpreted function per format.
func (e *Exec) sprintf(format Value, varargs Value) *Term {
	c := e.C
	fs, ok := c.StrValue(format.(*Term))
	if !ok {
		e.unsupported("Sprintf with symbolic format")
	}
	sl := varargs.(*SliceV)
	var terms []*Term
	var conc []interface{}
	allConc := true
	for i := 0; i < sl.Len; i++ {
		iv := sl.Arr.Val.(*ArrayV).E[sl.Off+i].(*IfaceV)
		t, ok := iv.Val.(*Term)
		if !ok {
			// non-scalar operand (e.g. enum value printing, structs): opaque text
			allConc = false
			terms = append(terms, c.IntConst(-1000-int64(i)))
			continue
		}
		terms = append(terms, t)
		if !t.Const {
			allConc = false
			continue
		}
		switch {
		case isString(iv.Typ):
			s, _ := c.StrValue(t)
			conc = append(conc, s)
		case isInteger(iv.Typ):
			if isSigned(iv.Typ) {
				conc = append(conc, sext(t.U, t.Sort.W))
			} else {
				conc = append(conc, t.U)
			}
		case isFloat(iv.Typ):
			conc = append(conc, fpVal(t))
		case t.Sort.K == SBool:
			conc = append(conc, t.U == 1)
		default:
			allConc = false
		}
	}
	if allConc {
		return c.Str(fmt.Sprintf(fs, conc...))
	}
	name := fmt.Sprintf("fmt!%d", c.Str(fs).U)
	app := c.App(name, IntSort, terms...)
	// axioms: result is a non-empty string distinct from UUIDs; injective in its operands
	e.Assume(c.mk(&Term{Op: ">", Sort: BoolSort, Args: []*Term{app, c.IntConst(0)}}))
	key := "apps:" + name
	prev, _ := e.ext[key].([]*Term)
	for _, p := range prev {
		if p == app {
			return app
		}
	}
	for _, p := range prev {
		same := c.True
		for i := range terms {
			if p.Args[i].Sort.K == SFP {
				continue
			}
			same = c.And(same, c.Eq(p.Args[i], terms[i]))
		}
		e.Assume(c.Implies(c.Eq(p, app), same))
	}
	e.ext[key] = append(prev, app)
	return app
}

// sortSlice implements sort.Slice as a contract stub when elements are symbolic: the result is a
// permutation of the input that is sorted w.r.t. less; for concrete keys a real sort is done.
func (e *Exec) sortSlice(sv Value, less *FuncV) {
	iv := sv.(*IfaceV)
	sl := iv.Val.(*SliceV)
	n := sl.Len
	if n <= 1 {
		return
	}
	arr := sl.Arr.Val.(*ArrayV)
	c := e.C
	// insertion sort with symbolic comparisons resolved by forking would explode; instead build a
	// sorting network of compare-exchange steps using ite on scalar elements.
	scalar := true
	for i := 0; i < n; i++ {
		if _, ok := arr.E[sl.Off+i].(*Term); !ok {
			scalar = false
		}
	}
	if !scalar {
		e.unsupported("sort.Slice over non-scalar elements")
	}
	callLess := func(i, j int) *Term {
		r := e.callSync(less, []Value{c.BVConst(64, uint64(i)), c.BVConst(64, uint64(j))})
		return r.(*Term)
	}
	// bubble network: n(n-1)/2 compare-exchanges
	for pass := 0; pass < n-1; pass++ {
		for i := 0; i < n-1-pass; i++ {
			a, b := arr.E[sl.Off+i].(*Term), arr.E[sl.Off+i+1].(*Term)
			sw := callLess(i+1, i) // swap iff less(b, a)
			arr.E[sl.Off+i] = c.Ite(sw, b, a)
			arr.E[sl.Off+i+1] = c.Ite(sw, a, b)
		}
	}
}
