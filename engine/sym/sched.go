package sym

import (
	"fmt"
	"os"
	"go/types"

	"golang.org/x/tools/go/ssa"
)

// parState is active while verifnd.Par(...) runs: scheduling points become decisions.
type parState struct {
	threads   []*Thread
	preempts  int
	maxPre    int
	parent    *Thread
	schedLog  []int
}

type tickerObj struct {
	ch      *ChanObj
	period  *Term
	stopped bool
	isTimer bool
	armed   bool
	obj     *Object
}

func (e *Exec) spawn(fn Value, args []Value, cc *ssa.CallCommon) *Thread {
	fv := fn.(*FuncV)
	th := &Thread{ID: len(e.threads), State: TRunnable, Name: "go " + describeFn(fv)}
	e.threads = append(e.threads, th)
	e.raceSpawn(e.cur, th)
	saved := e.cur
	e.cur = th
	res, handled, blocked := e.dispatch(fv, args, cc, nil)
	_ = res
	if blocked {
		e.unsupported("go statement on a blocking intercepted function")
	}
	if handled {
		th.State = TDone
	} else {
		e.pushCall(fv, args, nil, nil)
	}
	e.cur = saved
	return th
}

func describeFn(fv *FuncV) string {
	if fv.Fn != nil {
		return fv.Fn.String()
	}
	return fv.Builtin
}

// runThread runs th until it blocks or finishes (no preemption).
func (e *Exec) runThread(th *Thread) {
	saved := e.cur
	e.cur = th
	th.State = TRunnable
	for e.stepCur() {
	}
	if len(th.Stack) == 0 {
		th.State = TDone
	}
	e.cur = saved
}

// runnable re-evaluates whether a blocked thread could make progress: we simply retry it.
// A retry that blocks again has no side effects (blocking ops check before acting).
func (e *Exec) tryProgress(th *Thread) bool {
	if th.State == TDone {
		return false
	}
	before := e.Stats.Steps
	e.runThread(th)
	return e.Stats.Steps > before+1 || th.State == TDone
}

// runOthersUntilRunnable lets other threads run until `th` can make progress. Returns false on deadlock.
func (e *Exec) runOthersUntilRunnable(th *Thread) bool {
	for round := 0; round < 10000; round++ {
		// can th progress now?
		saved := e.cur
		e.cur = th
		th.State = TRunnable
		ok := e.stepCur()
		e.cur = saved
		if ok || th.State == TDone {
			return true
		}
		progressed := false
		for _, o := range e.threads {
			if o == th || o.State == TDone || o.busy {
				continue
			}
			if e.tryProgress(o) {
				progressed = true
			}
		}
		if !progressed {
			return false
		}
	}
	e.unsupported("livelock in scheduler")
	return false
}

// quiesce runs every thread other than the current one until all are blocked or done.
func (e *Exec) quiesce() {
	// the calling thread is in the middle of an instruction (an engine intrinsic): nobody may step it meanwhile,
	// not even a nested quiesce started by another thread
	self := e.cur
	wasBusy := self.busy
	self.busy = true
	defer func() { self.busy = wasBusy; e.cur = self }()
	for round := 0; round < 10000; round++ {
		progressed := false
		for _, o := range e.threads {
			if o == self || o.State == TDone || o.busy {
				continue
			}
			if e.tryProgress(o) {
				progressed = true
			}
		}
		if !progressed {
			return
		}
	}
	e.unsupported("livelock in quiesce")
}

func (e *Exec) deadlock(th *Thread) {
	msg := fmt.Sprintf("deadlock: thread %d (%s) blocked forever on %s", th.ID, th.Name, th.Wait)
	saved := e.cur
	for _, o := range e.threads {
		if o != th && o.State != TDone {
			e.cur = o
			msg += fmt.Sprintf("; thread %d (%s) blocked on %s at %s", o.ID, o.Name, o.Wait, e.where())
		}
	}
	e.cur = saved
	e.fail("deadlock", msg)
}

// RunMain runs the harness entry function on the main thread to completion.
func (e *Exec) RunMain(fn *ssa.Function) {
	th := &Thread{ID: 0, State: TRunnable, IsMain: true, Name: "main"}
	e.threads = append(e.threads, th)
	e.cur = th
	e.pushCall(&FuncV{Fn: fn}, nil, nil, nil)
	for len(th.Stack) > 0 {
		if !e.stepCur() {
			if len(th.Stack) == 0 {
				break
			}
			if !e.runOthersUntilRunnable(th) {
				e.deadlock(th)
			}
		}
	}
	th.State = TDone
}

// schedPoint marks a synchronisation operation; inside Par it may switch threads (a decision).
func (e *Exec) schedPoint(what string) {
	if e.par == nil || e.cur.ParSlot == 0 || e.probing {
		return
	}
	if e.cur.skipSched {
		e.cur.skipSched = false
		return
	}
	e.Stats.SchedPoints++
	p := e.par
	if p.preempts >= p.maxPre {
		return
	}
	// candidates: other Par threads that are not done (blocked ones are retried when chosen)
	var cands []*Thread
	for _, t := range p.threads {
		if t != e.cur && t.State != TDone {
			cands = append(cands, t)
		}
	}
	if len(cands) == 0 {
		return
	}
	k := e.Choose(len(cands) + 1)
	e.ND = append(e.ND, NDEntry{Kind: "sched", Dec: k})
	if os.Getenv("SYMGO_SCHED_DEBUG") != "" {
		fmt.Fprintf(os.Stderr, "SCHEDPOINT t%d k=%d %s %s\n", e.cur.ParSlot-1, k, what, e.where())
	}
	if k == 0 {
		return
	}
	p.preempts++
	target := cands[k-1]
	panic(switchSignal{to: target})
}

type switchSignal struct{ to *Thread }

// runPar runs the Par block: threads interleave at scheduling points under bounded preemption.
func (e *Exec) runPar(fns []*FuncV) {
	if e.par != nil {
		e.unsupported("nested Par")
	}
	parent := e.cur
	p := &parState{parent: parent, maxPre: e.Opts.MaxPreempt}
	if n, ok := e.ext["par.maxpre"].(int); ok {
		p.maxPre = n // verifnd.Preempt: the harness chose the bound for this block
	}
	e.par = p
	for i, fv := range fns {
		th := &Thread{ID: len(e.threads), State: TRunnable, Name: fmt.Sprintf("par%d", i), ParSlot: i + 1}
		e.threads = append(e.threads, th)
		e.raceSpawn(parent, th)
		p.threads = append(p.threads, th)
		e.cur = th
		e.pushCall(fv, nil, nil, nil)
	}
	// initial choice of the first thread
	cur := p.threads[e.chooseSched(len(p.threads))]
	for {
		sw := e.runParThread(cur)
		if sw != nil {
			cur = sw
			continue
		}
		// cur blocked or done: pick next runnable among par threads (and helper threads)
		allDone := true
		var alive []*Thread
		for _, t := range p.threads {
			if t.State != TDone {
				allDone = false
				alive = append(alive, t)
			}
		}
		if allDone {
			break
		}
		// try each alive thread (decision when several can move); blocked ones are probed
		var movable []*Thread
		for _, t := range alive {
			if e.canMove(t) {
				movable = append(movable, t)
			}
		}
		if len(movable) == 0 {
			// maybe background (non-Par) threads can unblock someone
			progressed := false
			for _, o := range e.threads {
				if o.ParSlot == 0 && o != parent && o.State != TDone {
					if e.tryProgress(o) {
						progressed = true
					}
				}
			}
			if progressed {
				continue
			}
			e.cur = alive[0]
			e.deadlock(alive[0])
		}
		cur = movable[e.chooseSched(len(movable))]
	}
	for _, t := range p.threads {
		e.raceJoin(parent, t)
	}
	e.par = nil
	e.cur = parent
}

func (e *Exec) chooseSched(n int) int {
	if n <= 1 {
		return 0
	}
	k := e.Choose(n)
	e.ND = append(e.ND, NDEntry{Kind: "sched", Dec: k})
	return k
}

// canMove probes whether a thread can execute its next instruction without blocking.
// Probing is side-effect free: blocking operations panic(probeOK) instead of acting.
func (e *Exec) canMove(t *Thread) bool {
	if t.State == TDone || len(t.Stack) == 0 {
		return false
	}
	if t.State == TRunnable {
		return true
	}
	saved := e.cur
	e.cur = t
	e.probing = true
	t.State = TRunnable
	ok := e.stepCur()
	e.probing = false
	e.cur = saved
	if ok {
		t.State = TRunnable
		return true
	}
	t.State = TBlocked
	return false
}

// runParThread runs t until it blocks, finishes, or is preempted at a scheduling point (returns target).
func (e *Exec) runParThread(t *Thread) (switchTo *Thread) {
	e.cur = t
	t.State = TRunnable
	defer func() {
		if r := recover(); r != nil {
			if s, ok := r.(switchSignal); ok {
				// the instruction that hit the scheduling point has not executed: rewind pc
				f := t.Stack[len(t.Stack)-1]
				f.pc--
				t.skipSched = true
				switchTo = s.to
				return
			}
			panic(r)
		}
	}()
	for e.stepCur() {
	}
	if len(t.Stack) == 0 {
		t.State = TDone
	}
	return nil
}

// ---- channels ----

func (e *Exec) chanSend(ch *ChanV, v Value) bool {
	if ch.C == nil {
		e.cur.Wait = "send on nil channel"
		return true
	}
	c := ch.C
	if c.Closed {
		e.fail("send-closed-chan", "send on closed channel")
	}
	if len(c.Buf) >= c.Cap {
		e.cur.Wait = fmt.Sprintf("send on full channel (cap %d)", c.Cap)
		return true
	}
	if e.probing {
		panic(probeOK{})
	}
	c.Buf = append(c.Buf, copyVal(v))
	e.raceChanSend(c)
	return false
}

func (e *Exec) chanRecv(ch *ChanV) (Value, bool, bool) {
	if ch.C == nil {
		e.cur.Wait = "receive on nil channel"
		return nil, false, true
	}
	c := ch.C
	if e.probing && (len(c.Buf) > 0 || c.Closed) {
		panic(probeOK{})
	}
	if len(c.Buf) > 0 {
		v := c.Buf[0]
		c.Buf = c.Buf[1:]
		e.raceChanRecv(c)
		return v, true, false
	}
	if c.Closed {
		return e.zero(c.Elem), false, false
	}
	e.cur.Wait = "receive on empty channel"
	return nil, false, true
}

func (e *Exec) selectOp(f *Frame, x *ssa.Select) bool {
	var ready []int
	for i, st := range x.States {
		ch := e.get(f, st.Chan).(*ChanV)
		if ch.C == nil {
			continue
		}
		if st.Dir == 1 { // SendOnly
			if ch.C.Closed || len(ch.C.Buf) < ch.C.Cap {
				ready = append(ready, i)
			}
		} else {
			if len(ch.C.Buf) > 0 || ch.C.Closed {
				ready = append(ready, i)
			}
		}
	}
	c := e.C
	mk := func(idx int, recvOk bool, recvVals []Value) Value {
		tv := TupleV{c.BVConst(64, uint64(int64(idx))), c.Bool(recvOk)}
		tv = append(tv, recvVals...)
		return tv
	}
	recvZeros := func() []Value {
		var out []Value
		for _, st := range x.States {
			if st.Dir != 1 {
				out = append(out, e.zero(chanElem(st.Chan)))
			}
		}
		return out
	}
	if len(ready) == 0 {
		if !x.Blocking {
			e.set(f, x, mk(-1, false, recvZeros()))
			return false
		}
		e.cur.Wait = "select with no ready case"
		return true
	}
	if e.probing {
		panic(probeOK{})
	}
	pick := ready[0]
	if len(ready) > 1 {
		k := e.Choose(len(ready))
		e.ND = append(e.ND, NDEntry{Kind: "select", Dec: k})
		pick = ready[k]
	}
	st := x.States[pick]
	ch := e.get(f, st.Chan).(*ChanV)
	rv := recvZeros()
	ok := false
	if st.Dir == 1 {
		if ch.C.Closed {
			e.fail("send-closed-chan", "send on closed channel (select)")
		}
		ch.C.Buf = append(ch.C.Buf, copyVal(e.get(f, st.Send)))
		e.raceChanSend(ch.C)
	} else {
		// position of this recv among recv states
		pos := 0
		for i := 0; i < pick; i++ {
			if x.States[i].Dir != 1 {
				pos++
			}
		}
		if len(ch.C.Buf) > 0 {
			rv[pos] = ch.C.Buf[0]
			ch.C.Buf = ch.C.Buf[1:]
			ok = true
			e.raceChanRecv(ch.C)
		}
	}
	e.set(f, x, mk(pick, ok, rv))
	return false
}

func chanElem(v ssa.Value) types.Type {
	return v.Type().Underlying().(*types.Chan).Elem()
}
