// Package sym is a bounded symbolic executor for Go SSA (golang.org/x/tools/go/ssa)
// that turns assertions in harness functions into SMT-LIB2 queries.
package sym

import (
	"fmt"
	"math"
	"sort"
	"strconv"
	"strings"
)

// SortKind enumerates SMT sorts used by the encoder.
type SortKind int

const (
	SBool SortKind = iota
	SBV            // bit-vector of width W (Go integers, wrapping semantics)
	SFP            // IEEE float, W = 32 or 64
	SInt           // mathematical integer: codes of strings / opaque byte slices
)

type Sort struct {
	K SortKind
	W int
}

var (
	BoolSort = Sort{SBool, 0}
	IntSort  = Sort{SInt, 0}
)

func BV(w int) Sort { return Sort{SBV, w} }
func FP(w int) Sort { return Sort{SFP, w} }

func (s Sort) SMT() string {
	switch s.K {
	case SBool:
		return "Bool"
	case SBV:
		return fmt.Sprintf("(_ BitVec %d)", s.W)
	case SFP:
		if s.W == 32 {
			return "(_ FloatingPoint 8 24)"
		}
		return "(_ FloatingPoint 11 53)"
	case SInt:
		return "Int"
	}
	panic("sort")
}

// Term is a hash-consed node of the expression DAG.
type Term struct {
	ID    int
	Op    string
	Sort  Sort
	Args  []*Term
	Const bool
	U     uint64 // payload: bv value / bool (0,1) / fp bits / int code
	Name  string // var or UF name; extra op parameter
}

// Ctx owns the term table; one per worker (not shared between goroutines).
type Ctx struct {
	tab    map[string]*Term
	nextID int
	True   *Term
	False  *Term

	// string interning (strings are Int codes)
	strCode map[string]int64
	strOf   map[int64]string
	// uninterpreted functions declared: name -> signature
	UFs map[string]*UFDecl
}

type UFDecl struct {
	Name string
	Args []Sort
	Res  Sort
}

func NewCtx() *Ctx {
	c := &Ctx{tab: map[string]*Term{}, strCode: map[string]int64{"": 0}, strOf: map[int64]string{0: ""}, UFs: map[string]*UFDecl{}}
	c.True = c.mk(&Term{Op: "const", Sort: BoolSort, Const: true, U: 1})
	c.False = c.mk(&Term{Op: "const", Sort: BoolSort, Const: true, U: 0})
	return c
}

func (c *Ctx) mk(t *Term) *Term {
	var sb strings.Builder
	sb.WriteString(t.Op)
	sb.WriteByte('|')
	sb.WriteString(strconv.Itoa(int(t.Sort.K)*1000 + t.Sort.W))
	sb.WriteByte('|')
	sb.WriteString(t.Name)
	sb.WriteByte('|')
	if t.Const {
		sb.WriteString(strconv.FormatUint(t.U, 16))
	}
	for _, a := range t.Args {
		sb.WriteByte(',')
		sb.WriteString(strconv.Itoa(a.ID))
	}
	k := sb.String()
	if o, ok := c.tab[k]; ok {
		return o
	}
	c.nextID++
	t.ID = c.nextID
	c.tab[k] = t
	return t
}

func mask(w int) uint64 {
	if w >= 64 {
		return ^uint64(0)
	}
	return (uint64(1) << uint(w)) - 1
}

func (c *Ctx) Bool(b bool) *Term {
	if b {
		return c.True
	}
	return c.False
}

func (c *Ctx) BVConst(w int, v uint64) *Term {
	return c.mk(&Term{Op: "const", Sort: BV(w), Const: true, U: v & mask(w)})
}

func (c *Ctx) IntConst(v int64) *Term {
	return c.mk(&Term{Op: "const", Sort: IntSort, Const: true, U: uint64(v)})
}

func (c *Ctx) FPConst32(f float32) *Term {
	return c.mk(&Term{Op: "const", Sort: FP(32), Const: true, U: uint64(math.Float32bits(f))})
}
func (c *Ctx) FPConst64(f float64) *Term {
	return c.mk(&Term{Op: "const", Sort: FP(64), Const: true, U: math.Float64bits(f)})
}

// Str returns the Int-coded constant for a concrete Go string.
func (c *Ctx) Str(s string) *Term {
	code, ok := c.strCode[s]
	if !ok {
		code = int64(len(c.strCode))
		c.strCode[s] = code
		c.strOf[code] = s
	}
	return c.IntConst(code)
}

// StrValue returns the Go string for a constant Int-coded string term.
func (c *Ctx) StrValue(t *Term) (string, bool) {
	if !t.Const || t.Sort.K != SInt {
		return "", false
	}
	s, ok := c.strOf[int64(t.U)]
	return s, ok
}

func (c *Ctx) Var(name string, s Sort) *Term {
	return c.mk(&Term{Op: "var", Sort: s, Name: name})
}

func (c *Ctx) App(name string, res Sort, args ...*Term) *Term {
	// one SMT function per (name, signature): variadic models (marshal of messages with repeated fields,
	// Sprintf) are applied with different arities
	var sb strings.Builder
	sb.WriteString(name)
	sb.WriteByte('_')
	for _, a := range args {
		switch a.Sort.K {
		case SBool:
			sb.WriteByte('b')
		case SInt:
			sb.WriteByte('i')
		case SFP:
			sb.WriteString("f" + strconv.Itoa(a.Sort.W))
		default:
			sb.WriteString("v" + strconv.Itoa(a.Sort.W))
		}
	}
	name = sb.String()
	if _, ok := c.UFs[name]; !ok {
		d := &UFDecl{Name: name, Res: res}
		for _, a := range args {
			d.Args = append(d.Args, a.Sort)
		}
		c.UFs[name] = d
	}
	return c.mk(&Term{Op: "uf", Sort: res, Name: name, Args: args})
}

func (t *Term) IsTrue() bool  { return t.Const && t.Sort.K == SBool && t.U == 1 }
func (t *Term) IsFalse() bool { return t.Const && t.Sort.K == SBool && t.U == 0 }

func sext(v uint64, w int) int64 {
	if w >= 64 {
		return int64(v)
	}
	sh := uint(64 - w)
	return int64(v<<sh) >> sh
}

// ---- boolean ----

func (c *Ctx) Not(a *Term) *Term {
	if a.Const {
		return c.Bool(a.U == 0)
	}
	if a.Op == "not" {
		return a.Args[0]
	}
	return c.mk(&Term{Op: "not", Sort: BoolSort, Args: []*Term{a}})
}

func (c *Ctx) And(as ...*Term) *Term {
	var out []*Term
	for _, a := range as {
		if a.IsFalse() {
			return c.False
		}
		if a.IsTrue() {
			continue
		}
		if a.Op == "and" {
			out = append(out, a.Args...)
		} else {
			out = append(out, a)
		}
	}
	if len(out) == 0 {
		return c.True
	}
	if len(out) == 1 {
		return out[0]
	}
	return c.mk(&Term{Op: "and", Sort: BoolSort, Args: out})
}

func (c *Ctx) Or(as ...*Term) *Term {
	var out []*Term
	for _, a := range as {
		if a.IsTrue() {
			return c.True
		}
		if a.IsFalse() {
			continue
		}
		if a.Op == "or" {
			out = append(out, a.Args...)
		} else {
			out = append(out, a)
		}
	}
	if len(out) == 0 {
		return c.False
	}
	if len(out) == 1 {
		return out[0]
	}
	return c.mk(&Term{Op: "or", Sort: BoolSort, Args: out})
}

func (c *Ctx) Implies(a, b *Term) *Term { return c.Or(c.Not(a), b) }

func (c *Ctx) Ite(cond, a, b *Term) *Term {
	if cond.IsTrue() {
		return a
	}
	if cond.IsFalse() {
		return b
	}
	if a == b {
		return a
	}
	if a.Sort.K == SBool {
		if a.IsTrue() && b.IsFalse() {
			return cond
		}
		if a.IsFalse() && b.IsTrue() {
			return c.Not(cond)
		}
	}
	return c.mk(&Term{Op: "ite", Sort: a.Sort, Args: []*Term{cond, a, b}})
}

// linear decomposes t into base + offset for bvadd with a constant.
func linear(t *Term) (*Term, uint64) {
	if t.Op == "bvadd" && len(t.Args) == 2 {
		if t.Args[1].Const {
			return t.Args[0], t.Args[1].U
		}
		if t.Args[0].Const {
			return t.Args[1], t.Args[0].U
		}
	}
	return t, 0
}

func (c *Ctx) Eq(a, b *Term) *Term {
	if a.Sort != b.Sort {
		panic(fmt.Sprintf("Eq sort mismatch %v %v (%s %s)", a.Sort, b.Sort, a.Op, b.Op))
	}
	if a.Sort.K == SFP {
		panic("use FPEq for floats")
	}
	if a == b {
		return c.True
	}
	if a.Const && b.Const {
		return c.Bool(a.U == b.U)
	}
	if a.Sort.K == SBool {
		if a.Const {
			a, b = b, a
		}
		if b.IsTrue() {
			return a
		}
		if b.IsFalse() {
			return c.Not(a)
		}
	}
	// ite trees over constants: decide by the sets of possible values
	if a.Op == "ite" || b.Op == "ite" {
		la, oka := constLeaves(a, 0)
		lb, okb := constLeaves(b, 0)
		if oka && okb {
			common := false
			for v := range la {
				if lb[v] {
					common = true
				}
			}
			if !common {
				return c.False
			}
			if b.Const && a.Op == "ite" {
				// push the comparison into the ite
				return c.Ite(a.Args[0], c.Eq(a.Args[1], b), c.Eq(a.Args[2], b))
			}
			if a.Const && b.Op == "ite" {
				return c.Ite(b.Args[0], c.Eq(b.Args[1], a), c.Eq(b.Args[2], a))
			}
		}
	}
	if a.Sort.K == SBV {
		ba, oa := linear(a)
		bb, ob := linear(b)
		if ba == bb {
			return c.Bool((oa-ob)&mask(a.Sort.W) == 0)
		}
	}
	if a.ID > b.ID {
		a, b = b, a
	}
	return c.mk(&Term{Op: "=", Sort: BoolSort, Args: []*Term{a, b}})
}

// constLeaves returns the set of constant values an ite tree can take (ok=false if a leaf is not constant).
func constLeaves(t *Term, depth int) (map[uint64]bool, bool) {
	if t.Const {
		return map[uint64]bool{t.U: true}, true
	}
	if t.Op != "ite" || depth > 6 {
		return nil, false
	}
	a, ok := constLeaves(t.Args[1], depth+1)
	if !ok {
		return nil, false
	}
	b, ok := constLeaves(t.Args[2], depth+1)
	if !ok {
		return nil, false
	}
	for k := range b {
		a[k] = true
	}
	return a, true
}

// ---- bit-vectors ----

func (c *Ctx) bvbin(op string, a, b *Term) *Term {
	if a.Sort != b.Sort || a.Sort.K != SBV {
		panic(fmt.Sprintf("%s sort mismatch %v %v", op, a.Sort, b.Sort))
	}
	w := a.Sort.W
	if a.Const && b.Const {
		x, y := a.U, b.U
		var r uint64
		ok := true
		switch op {
		case "bvadd":
			r = x + y
		case "bvsub":
			r = x - y
		case "bvmul":
			r = x * y
		case "bvand":
			r = x & y
		case "bvor":
			r = x | y
		case "bvxor":
			r = x ^ y
		case "bvudiv":
			if y == 0 {
				ok = false
			} else {
				r = x / y
			}
		case "bvurem":
			if y == 0 {
				ok = false
			} else {
				r = x % y
			}
		case "bvsdiv":
			if y == 0 {
				ok = false
			} else {
				sx, sy := sext(x, w), sext(y, w)
				if sy == -1 {
					r = uint64(-sx)
				} else {
					r = uint64(sx / sy)
				}
			}
		case "bvsrem":
			if y == 0 {
				ok = false
			} else {
				sx, sy := sext(x, w), sext(y, w)
				if sy == -1 {
					r = 0
				} else {
					r = uint64(sx % sy)
				}
			}
		case "bvshl":
			if y >= uint64(w) {
				r = 0
			} else {
				r = x << y
			}
		case "bvlshr":
			if y >= uint64(w) {
				r = 0
			} else {
				r = x >> y
			}
		case "bvashr":
			sx := sext(x, w)
			if y >= uint64(w) {
				if sx < 0 {
					r = ^uint64(0)
				} else {
					r = 0
				}
			} else {
				r = uint64(sx >> y)
			}
		default:
			ok = false
		}
		if ok {
			return c.BVConst(w, r)
		}
	}
	switch op {
	case "bvadd":
		if a.Const {
			a, b = b, a
		}
		if b.Const {
			if b.U == 0 {
				return a
			}
			// (x + c1) + c2 -> x + (c1+c2)
			if ba, oa := linear(a); ba != a {
				return c.bvbin("bvadd", ba, c.BVConst(w, oa+b.U))
			}
		}
	case "bvsub":
		if b.Const {
			return c.bvbin("bvadd", a, c.BVConst(w, -b.U))
		}
		if a == b {
			return c.BVConst(w, 0)
		}
	case "bvand":
		if a == b {
			return a
		}
		if b.Const && b.U == 0 || a.Const && a.U == 0 {
			return c.BVConst(w, 0)
		}
		if b.Const && b.U == mask(w) {
			return a
		}
		if a.Const && a.U == mask(w) {
			return b
		}
	case "bvor":
		if a == b {
			return a
		}
		if b.Const && b.U == 0 {
			return a
		}
		if a.Const && a.U == 0 {
			return b
		}
	case "bvmul":
		if b.Const && b.U == 1 {
			return a
		}
		if a.Const && a.U == 1 {
			return b
		}
		if (b.Const && b.U == 0) || (a.Const && a.U == 0) {
			return c.BVConst(w, 0)
		}
	case "bvshl", "bvlshr", "bvashr":
		if b.Const && b.U == 0 {
			return a
		}
	}
	return c.mk(&Term{Op: op, Sort: a.Sort, Args: []*Term{a, b}})
}

func (c *Ctx) BVAdd(a, b *Term) *Term  { return c.bvbin("bvadd", a, b) }
func (c *Ctx) BVSub(a, b *Term) *Term  { return c.bvbin("bvsub", a, b) }
func (c *Ctx) BVMul(a, b *Term) *Term  { return c.bvbin("bvmul", a, b) }
func (c *Ctx) BVBin(op string, a, b *Term) *Term { return c.bvbin(op, a, b) }

func (c *Ctx) BVNeg(a *Term) *Term { return c.bvbin("bvsub", c.BVConst(a.Sort.W, 0), a) }
func (c *Ctx) BVNot(a *Term) *Term {
	if a.Const {
		return c.BVConst(a.Sort.W, ^a.U)
	}
	return c.mk(&Term{Op: "bvnot", Sort: a.Sort, Args: []*Term{a}})
}

func (c *Ctx) bvcmp(op string, a, b *Term) *Term {
	if a.Sort != b.Sort || a.Sort.K != SBV {
		panic(fmt.Sprintf("%s sort mismatch %v %v", op, a.Sort, b.Sort))
	}
	w := a.Sort.W
	if a.Const && b.Const {
		switch op {
		case "bvult":
			return c.Bool(a.U < b.U)
		case "bvule":
			return c.Bool(a.U <= b.U)
		case "bvslt":
			return c.Bool(sext(a.U, w) < sext(b.U, w))
		case "bvsle":
			return c.Bool(sext(a.U, w) <= sext(b.U, w))
		}
	}
	if a == b {
		return c.Bool(op == "bvule" || op == "bvsle")
	}
	return c.mk(&Term{Op: op, Sort: BoolSort, Args: []*Term{a, b}})
}

func (c *Ctx) ULT(a, b *Term) *Term { return c.bvcmp("bvult", a, b) }
func (c *Ctx) ULE(a, b *Term) *Term { return c.bvcmp("bvule", a, b) }
func (c *Ctx) SLT(a, b *Term) *Term { return c.bvcmp("bvslt", a, b) }
func (c *Ctx) SLE(a, b *Term) *Term { return c.bvcmp("bvsle", a, b) }

// Extend/Truncate: convert bit-vector a to width w.
func (c *Ctx) BVConv(a *Term, w int, signed bool) *Term {
	aw := a.Sort.W
	if aw == w {
		return a
	}
	if a.Const {
		if w < aw {
			return c.BVConst(w, a.U)
		}
		if signed {
			return c.BVConst(w, uint64(sext(a.U, aw)))
		}
		return c.BVConst(w, a.U)
	}
	if w < aw {
		return c.mk(&Term{Op: "extract", Sort: BV(w), Args: []*Term{a}, Name: fmt.Sprintf("%d 0", w-1)})
	}
	op := "zero_extend"
	if signed {
		op = "sign_extend"
	}
	return c.mk(&Term{Op: op, Sort: BV(w), Args: []*Term{a}, Name: strconv.Itoa(w - aw)})
}

// ---- floating point ----

func fpVal(t *Term) float64 {
	if t.Sort.W == 32 {
		return float64(math.Float32frombits(uint32(t.U)))
	}
	return math.Float64frombits(t.U)
}

func (c *Ctx) fpConst(w int, f float64) *Term {
	if w == 32 {
		return c.FPConst32(float32(f))
	}
	return c.FPConst64(f)
}

func (c *Ctx) FPBin(op string, a, b *Term) *Term {
	if a.Sort != b.Sort || a.Sort.K != SFP {
		panic("fp sort mismatch")
	}
	if a.Const && b.Const {
		w := a.Sort.W
		if w == 32 {
			x, y := math.Float32frombits(uint32(a.U)), math.Float32frombits(uint32(b.U))
			var r float32
			switch op {
			case "fp.add":
				r = x + y
			case "fp.sub":
				r = x - y
			case "fp.mul":
				r = x * y
			case "fp.div":
				r = x / y
			}
			return c.FPConst32(r)
		}
		x, y := math.Float64frombits(a.U), math.Float64frombits(b.U)
		var r float64
		switch op {
		case "fp.add":
			r = x + y
		case "fp.sub":
			r = x - y
		case "fp.mul":
			r = x * y
		case "fp.div":
			r = x / y
		}
		return c.FPConst64(r)
	}
	if op == "fp.sub" && a == b && !a.Const {
		// x - x is +0 for every finite x (round to nearest) and NaN for NaN and the infinities
		w := a.Sort.W
		return c.Ite(c.Or(c.FPUn("fp.isNaN", a), c.FPUn("fp.isInfinite", a)), c.fpConst(w, math.NaN()), c.fpConst(w, 0))
	}
	if b.Const {
		w := a.Sort.W
		var y float64
		if w == 32 {
			y = float64(math.Float32frombits(uint32(b.U)))
		} else {
			y = math.Float64frombits(b.U)
		}
		switch op {
		case "fp.sub":
			// x - (+0) = x for every x (also -0 and NaN) under round-to-nearest
			if y == 0 && !math.Signbit(y) {
				return a
			}
		case "fp.div":
			// x / 2^k = x * 2^-k exactly (both are the correctly rounded value of the same real) when 2^-k is a normal number
			if fr, _ := math.Frexp(math.Abs(y)); fr == 0.5 && !math.IsInf(y, 0) {
				inv := 1 / y
				minNormal, maxFinite := 0x1p-1022, math.MaxFloat64
				if w == 32 {
					minNormal, maxFinite = 0x1p-126, math.MaxFloat32
				}
				if math.Abs(inv) >= minNormal && math.Abs(inv) <= maxFinite {
					return c.mk(&Term{Op: "fp.mul", Sort: a.Sort, Args: []*Term{a, c.fpConst(w, inv)}})
				}
			}
		}
	}
	return c.mk(&Term{Op: op, Sort: a.Sort, Args: []*Term{a, b}})
}

func (c *Ctx) FPCmp(op string, a, b *Term) *Term {
	if a.Sort != b.Sort || a.Sort.K != SFP {
		panic("fp sort mismatch")
	}
	if a.Const && b.Const {
		x, y := fpVal(a), fpVal(b)
		switch op {
		case "fp.eq":
			return c.Bool(x == y)
		case "fp.lt":
			return c.Bool(x < y)
		case "fp.leq":
			return c.Bool(x <= y)
		case "fp.gt":
			return c.Bool(x > y)
		case "fp.geq":
			return c.Bool(x >= y)
		}
	}
	if op == "fp.eq" {
		// comparisons with zero look through exact, zero-preserving operations:
		// sqrt(w) = ±0 iff w = ±0; a widening conversion is exact
		x, z := a, b
		if x.Const {
			x, z = b, a
		}
		if z.Const && fpVal(z) == 0 && !x.Const {
			switch {
			case x.Op == "fp.sqrt":
				return c.FPCmp("fp.eq", x.Args[0], c.fpConst(x.Args[0].Sort.W, 0))
			case x.Op == "fp.to_fp" && x.Args[0].Sort.K == SFP && x.Args[0].Sort.W < x.Sort.W:
				return c.FPCmp("fp.eq", x.Args[0], c.fpConst(x.Args[0].Sort.W, 0))
			}
		}
	}
	return c.mk(&Term{Op: op, Sort: BoolSort, Args: []*Term{a, b}})
}

func (c *Ctx) FPNeg(a *Term) *Term {
	if a.Const {
		return c.fpConst(a.Sort.W, -fpVal(a))
	}
	return c.mk(&Term{Op: "fp.neg", Sort: a.Sort, Args: []*Term{a}})
}

// FPUn applies a unary FP op: fp.abs, fp.sqrt, fp.floor, fp.ceil, fp.round (half away), fp.isNaN, fp.isInfinite
func (c *Ctx) FPUn(op string, a *Term) *Term {
	if a.Const {
		x := fpVal(a)
		switch op {
		case "fp.abs":
			return c.fpConst(a.Sort.W, math.Abs(x))
		case "fp.sqrt":
			if a.Sort.W == 64 {
				return c.FPConst64(math.Sqrt(x))
			}
		case "fp.floor":
			return c.fpConst(a.Sort.W, math.Floor(x))
		case "fp.ceil":
			return c.fpConst(a.Sort.W, math.Ceil(x))
		case "fp.round":
			return c.fpConst(a.Sort.W, math.Round(x))
		case "fp.isNaN":
			return c.Bool(math.IsNaN(x))
		case "fp.isInfinite":
			return c.Bool(math.IsInf(x, 0))
		}
	}
	s := a.Sort
	if op == "fp.isNaN" || op == "fp.isInfinite" {
		s = BoolSort
	}
	return c.mk(&Term{Op: op, Sort: s, Args: []*Term{a}})
}

// FPToFP converts between float widths.
func (c *Ctx) FPToFP(a *Term, w int) *Term {
	if a.Sort.W == w {
		return a
	}
	if a.Const {
		return c.fpConst(w, fpVal(a))
	}
	return c.mk(&Term{Op: "fp.to_fp", Sort: FP(w), Args: []*Term{a}})
}

// IntToFP converts a bit-vector (signed or unsigned) to float.
func (c *Ctx) IntToFP(a *Term, w int, signed bool) *Term {
	if a.Const {
		if signed {
			return c.fpConst(w, float64(sext(a.U, a.Sort.W)))
		}
		return c.fpConst(w, float64(a.U))
	}
	op := "fp.from_ubv"
	if signed {
		op = "fp.from_sbv"
	}
	return c.mk(&Term{Op: op, Sort: FP(w), Args: []*Term{a}})
}

// FPToInt converts float to bit-vector of width w (round toward zero). Out-of-range/NaN results
// are whatever the solver's fp.to_sbv gives (unspecified); callers add range side conditions.
func (c *Ctx) FPToInt(a *Term, w int, signed bool) *Term {
	if a.Const {
		x := fpVal(a)
		if !math.IsNaN(x) && !math.IsInf(x, 0) && math.Abs(x) < 9e18 {
			if signed {
				return c.BVConst(w, uint64(int64(x)))
			}
			if x >= 0 {
				return c.BVConst(w, uint64(x))
			}
			// negative -> unsigned: amd64 behaviour of uint(x) for small negative x goes via int64
			return c.BVConst(w, uint64(int64(x)))
		}
	}
	op := "fp.to_ubv"
	if signed {
		op = "fp.to_sbv"
	}
	return c.mk(&Term{Op: op, Sort: BV(w), Args: []*Term{a}, Name: strconv.Itoa(w)})
}

// FPFromBits reinterprets a bit-vector as a float (math.Float32frombits).
func (c *Ctx) FPFromBits(a *Term) *Term {
	if a.Const {
		return c.mk(&Term{Op: "const", Sort: FP(a.Sort.W), Const: true, U: a.U})
	}
	return c.mk(&Term{Op: "fp.from_bits", Sort: FP(a.Sort.W), Args: []*Term{a}})
}

// ---- printing ----

func (c *Ctx) leafSMT(t *Term) string {
	switch t.Op {
	case "const":
		switch t.Sort.K {
		case SBool:
			if t.U == 1 {
				return "true"
			}
			return "false"
		case SBV:
			if t.Sort.W%4 == 0 {
				return fmt.Sprintf("#x%0*x", t.Sort.W/4, t.U)
			}
			return fmt.Sprintf("(_ bv%d %d)", t.U, t.Sort.W)
		case SInt:
			v := int64(t.U)
			if v < 0 {
				return fmt.Sprintf("(- %d)", -v)
			}
			return strconv.FormatInt(v, 10)
		case SFP:
			if t.Sort.W == 32 {
				b := uint32(t.U)
				return fmt.Sprintf("(fp #b%01b #b%08b #b%023b)", b>>31, (b>>23)&0xff, b&0x7fffff)
			}
			b := t.U
			return fmt.Sprintf("(fp #b%01b #b%011b #b%052b)", b>>63, (b>>52)&0x7ff, b&((1<<52)-1))
		}
	case "var":
		return t.Name
	}
	return ""
}

func (c *Ctx) nodeSMT(t *Term, ref func(*Term) string) string {
	args := make([]string, len(t.Args))
	for i, a := range t.Args {
		args[i] = ref(a)
	}
	j := strings.Join(args, " ")
	switch t.Op {
	case "uf":
		if len(args) == 0 {
			return t.Name
		}
		return "(" + t.Name + " " + j + ")"
	case "extract":
		return "((_ extract " + t.Name + ") " + j + ")"
	case "zero_extend", "sign_extend":
		return "((_ " + t.Op + " " + t.Name + ") " + j + ")"
	case "fp.add", "fp.sub", "fp.mul", "fp.div":
		return "(" + t.Op + " RNE " + j + ")"
	case "fp.sqrt":
		return "(fp.sqrt RNE " + j + ")"
	case "fp.floor":
		return "(fp.roundToIntegral RTN " + j + ")"
	case "fp.ceil":
		return "(fp.roundToIntegral RTP " + j + ")"
	case "fp.round":
		return "(fp.roundToIntegral RNA " + j + ")"
	case "fp.trunc":
		return "(fp.roundToIntegral RTZ " + j + ")"
	case "fp.to_fp":
		if t.Sort.W == 32 {
			return "((_ to_fp 8 24) RNE " + j + ")"
		}
		return "((_ to_fp 11 53) RNE " + j + ")"
	case "fp.from_sbv":
		if t.Sort.W == 32 {
			return "((_ to_fp 8 24) RNE " + j + ")"
		}
		return "((_ to_fp 11 53) RNE " + j + ")"
	case "fp.from_ubv":
		if t.Sort.W == 32 {
			return "((_ to_fp_unsigned 8 24) RNE " + j + ")"
		}
		return "((_ to_fp_unsigned 11 53) RNE " + j + ")"
	case "fp.to_sbv":
		return "((_ fp.to_sbv " + t.Name + ") RTZ " + j + ")"
	case "fp.to_ubv":
		return "((_ fp.to_ubv " + t.Name + ") RTZ " + j + ")"
	case "fp.from_bits":
		if t.Sort.W == 32 {
			return "((_ to_fp 8 24) " + j + ")"
		}
		return "((_ to_fp 11 53) " + j + ")"
	}
	return "(" + t.Op + " " + j + ")"
}

// SMT prints t with let-bindings for every shared interior node.
func (c *Ctx) SMT(t *Term) string {
	if s := c.leafSMT(t); s != "" {
		return s
	}
	// count references
	refs := map[*Term]int{}
	var order []*Term
	var walk func(*Term)
	walk = func(x *Term) {
		refs[x]++
		if refs[x] > 1 {
			return
		}
		for _, a := range x.Args {
			walk(a)
		}
		order = append(order, x) // post-order
	}
	walk(t)
	names := map[*Term]string{}
	ref := func(x *Term) string {
		if n, ok := names[x]; ok {
			return n
		}
		if s := c.leafSMT(x); s != "" {
			return s
		}
		return "" // filled below
	}
	var render func(*Term) string
	render = func(x *Term) string {
		if n, ok := names[x]; ok {
			return n
		}
		if s := c.leafSMT(x); s != "" {
			return s
		}
		return c.nodeSMT(x, render)
	}
	_ = ref
	var sb strings.Builder
	nlet := 0
	for _, x := range order {
		if x == t || len(x.Args) == 0 && x.Op != "uf" {
			continue
		}
		if refs[x] > 1 {
			s := render(x)
			n := fmt.Sprintf("l!%d", x.ID)
			sb.WriteString("(let ((" + n + " " + s + ")) ")
			names[x] = n
			nlet++
		}
	}
	sb.WriteString(render(t))
	sb.WriteString(strings.Repeat(")", nlet))
	return sb.String()
}

// Vars collects free variables and UF applications' declarations needed by t.
func (c *Ctx) Vars(t *Term, seen map[*Term]bool, vars map[string]Sort, ufs map[string]bool) {
	if seen[t] {
		return
	}
	seen[t] = true
	if t.Op == "var" {
		vars[t.Name] = t.Sort
	}
	if t.Op == "uf" {
		ufs[t.Name] = true
	}
	for _, a := range t.Args {
		c.Vars(a, seen, vars, ufs)
	}
}

func sortedKeys[V any](m map[string]V) []string {
	ks := make([]string, 0, len(m))
	for k := range m {
		ks = append(ks, k)
	}
	sort.Strings(ks)
	return ks
}
