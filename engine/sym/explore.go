package sym

import (
	"fmt"
	"os"
	"runtime/debug"
	"sort"
	"strings"
	"sync"
	"time"

	"golang.org/x/tools/go/ssa"
)

// Result aggregates one harness exploration.
type Result struct {
	Harness      string
	Paths        int
	Infeasible   int
	Stats        Stats
	Violations   []*Violation
	ViolCount    map[string]int
	Reached      map[string]bool
	Functions    map[string]bool
	Stubs        map[string]bool
	Inconclusive []string
	EngineErrors []string
	Queries      int
	QSat, QUnsat int
	QUnknown     int
	QErrors      int
	SolverTime   time.Duration
	Wall         time.Duration
	Witness      *Witness
	Samples      []PathSample
	Schedules    int
	MaxPathLen   int
	Truncated    bool
}

// Witness is one complete feasible path with model values, for translator validation.
type Witness struct {
	ND  []NDValue
	Obs []ObsValue
}

type ObsValue struct {
	Label string   `json:"label"`
	Vals  []uint64 `json:"vals"`
}

type PathSample struct {
	Decisions string   `json:"decisions"`
	PathCond  []string `json:"path_condition_head"`
	NDKinds   int      `json:"nd_values"`
	Reached   []string `json:"reached"`
}

type ExploreOpts struct {
	Workers   int
	Solver    string
	TimeoutMS int
	Opts      *Options
	MaxPaths  int
	LogDir    string
	Race      bool
	Deadline  time.Time
	KnownKey  func(key string) bool // key = kind|label|keys: true if it matches an open known finding
}

type jobStack struct {
	mu    sync.Mutex
	cond  *sync.Cond
	jobs  [][]Decision
	busy  int
	stop  bool
}

func (s *jobStack) push(js ...[]Decision) {
	s.mu.Lock()
	s.jobs = append(s.jobs, js...)
	s.mu.Unlock()
	s.cond.Broadcast()
}

func (s *jobStack) pop() ([]Decision, bool) {
	s.mu.Lock()
	defer s.mu.Unlock()
	for {
		if s.stop {
			return nil, false
		}
		if n := len(s.jobs); n > 0 {
			j := s.jobs[n-1]
			s.jobs = s.jobs[:n-1]
			s.busy++
			return j, true
		}
		if s.busy == 0 {
			s.cond.Broadcast()
			return nil, false
		}
		s.cond.Wait()
	}
}

func (s *jobStack) done() {
	s.mu.Lock()
	s.busy--
	s.mu.Unlock()
	s.cond.Broadcast()
}

// Explore runs all paths of harness fn.
func Explore(p *Program, fn *ssa.Function, eo *ExploreOpts) *Result {
	t0 := time.Now()
	res := &Result{Harness: fn.Name(), Reached: map[string]bool{}, Functions: map[string]bool{}, Stubs: map[string]bool{}, ViolCount: map[string]int{}}
	var rmu sync.Mutex
	st := &jobStack{}
	st.cond = sync.NewCond(&st.mu)
	st.push([]Decision{})
	var wg sync.WaitGroup
	violSeen := map[string]bool{}
	for w := 0; w < eo.Workers; w++ {
		wg.Add(1)
		go func(w int) {
			defer wg.Done()
			ctx := NewCtx()
			logp := ""
			if eo.LogDir != "" {
				logp = fmt.Sprintf("%s/%s.w%d.smt2", eo.LogDir, fn.Name(), w)
			}
			sol, err := NewSolver(eo.Solver, ctx, eo.TimeoutMS, logp)
			if err != nil {
				rmu.Lock()
				res.EngineErrors = append(res.EngineErrors, "solver start: "+err.Error())
				rmu.Unlock()
				return
			}
			defer func() { sol.Close() }()
			npaths := 0
			for {
				job, ok := st.pop()
				if !ok {
					break
				}
				if !eo.Deadline.IsZero() && time.Now().After(eo.Deadline) {
					rmu.Lock()
					res.Truncated = true
					rmu.Unlock()
					st.done()
					st.mu.Lock()
					st.stop = true
					st.mu.Unlock()
					st.cond.Broadcast()
					break
				}
				if sol.Dead {
					// the solver process crashed during the previous path: start a fresh one (paths begin at scope depth 0)
					old := sol
					ns, err := NewSolver(eo.Solver, ctx, eo.TimeoutMS, "")
					if err == nil {
						ns.Queries, ns.Sat, ns.Unsat, ns.Unknown, ns.Errors, ns.Time, ns.Restarts = old.Queries, old.Sat, old.Unsat, old.Unknown, old.Errors, old.Time, old.Restarts+1
						old.Close()
						sol = ns
					}
				}
				ex := NewExec(p, ctx, sol, job, eo.Opts)
				ex.Harness = fn.Name()
				if eo.Race {
					ex.rd = newRaceDetector()
				}
				rmu.Lock()
				ex.wantWitness = res.Witness == nil
				rmu.Unlock()
				end, eerr := runPath(ex, fn)
				st.push(ex.Pending...)
				rmu.Lock()
				res.Paths++
				if end == "infeasible" {
					res.Infeasible++
				}
				if eerr != "" && len(res.EngineErrors) < 10 {
					res.EngineErrors = append(res.EngineErrors, eerr)
				}
				addStats(&res.Stats, &ex.Stats)
				for k := range ex.Reached {
					res.Reached[k] = true
				}
				for f := range ex.FnSeen {
					res.Functions[f.String()] = true
				}
				for _, s := range ex.StubsUsed() {
					res.Stubs[s] = true
				}
				for _, v := range ex.Violations {
					k := v.Kind + "|" + v.Label + "|" + strings.Join(v.Keys, ",")
					res.ViolCount[k]++
					if !violSeen[k] {
						violSeen[k] = true
						res.Violations = append(res.Violations, v)
					}
				}
				for _, s := range ex.Incon {
					if len(res.Inconclusive) < 30 {
						res.Inconclusive = append(res.Inconclusive, s)
					}
				}
				res.Stats.Inconclusive += 0
				if ex.Witness != nil && res.Witness == nil {
					res.Witness = &Witness{ND: ex.Witness.ND}
					for i, o := range ex.Obs {
						res.Witness.Obs = append(res.Witness.Obs, ObsValue{Label: o.Label, Vals: ex.ObsValues[i]})
					}
				}
				if len(res.Samples) < 3 && end == "done" {
					ps := PathSample{Decisions: decString(ex.trace), NDKinds: len(ex.ND)}
					for i, c := range ex.pathCond {
						if i >= 4 {
							break
						}
						s := ctx.SMT(c)
						if len(s) > 160 {
							s = s[:160] + "…"
						}
						ps.PathCond = append(ps.PathCond, s)
					}
					for k := range ex.Reached {
						ps.Reached = append(ps.Reached, k)
					}
					sort.Strings(ps.Reached)
					res.Samples = append(res.Samples, ps)
				}
				if len(ex.trace) > res.MaxPathLen {
					res.MaxPathLen = len(ex.trace)
				}
				nsched := 0
				for _, n := range ex.ND {
					if n.Kind == "sched" {
						nsched++
					}
				}
				if nsched > 0 {
					res.Schedules++
				}
				nviol := 0
				for k, n := range res.ViolCount {
					if eo.KnownKey != nil && eo.KnownKey(k) {
						continue // listed open findings do not end the exploration early
					}
					nviol += n
				}
				// enough counterexample paths: exploring thousands more of a broken tree adds nothing
				tooMany := (eo.MaxPaths > 0 && res.Paths >= eo.MaxPaths) || (nviol >= 300 && os.Getenv("SYMGO_NOSTOP") == "")
				rmu.Unlock()
				st.done()
				npaths++
				if tooMany {
					st.mu.Lock()
					st.stop = true
					st.mu.Unlock()
					st.cond.Broadcast()
					rmu.Lock()
					res.Truncated = true
					rmu.Unlock()
					break
				}
			}
			rmu.Lock()
			res.Queries += sol.Queries
			res.QSat += sol.Sat
			res.QUnsat += sol.Unsat
			res.QUnknown += sol.Unknown
			res.QErrors += sol.Errors
			res.SolverTime += sol.Time
			rmu.Unlock()
		}(w)
	}
	wg.Wait()
	res.Wall = time.Since(t0)
	return res
}

func decString(ds []Decision) string {
	var sb strings.Builder
	for _, d := range ds {
		if d.Forced {
			sb.WriteByte('.')
		}
		fmt.Fprintf(&sb, "%d", d.V)
		if d.N > 2 {
			fmt.Fprintf(&sb, "/%d", d.N)
		}
		sb.WriteByte(' ')
	}
	s := sb.String()
	if len(s) > 300 {
		s = s[:300] + "…"
	}
	return s
}

func addStats(a, b *Stats) {
	a.Steps += b.Steps
	a.Calls += b.Calls
	a.Forks += b.Forks
	a.AssertsChecked += b.AssertsChecked
	a.AssertsTrivial += b.AssertsTrivial
	a.ImplicitChecked += b.ImplicitChecked
	a.ImplicitTrivial += b.ImplicitTrivial
	a.SchedPoints += b.SchedPoints
	a.Inconclusive += b.Inconclusive
}

// runPath executes one path inside a solver scope; returns how it ended and an engine error if any.
func runPath(ex *Exec, fn *ssa.Function) (end string, engineErr string) {
	ex.S.Push()
	depth := ex.S.Depth()
	defer func() {
		if r := recover(); r != nil {
			switch x := r.(type) {
			case pathEnd:
				end = x.reason
			case EngineError:
				end = "engine-error"
				engineErr = x.Msg
			default:
				end = "engine-panic"
				engineErr = fmt.Sprintf("engine panic: %v @ %s\n%s", r, ex.where(), trimStack(string(debug.Stack())))
			}
		}
		for ex.S.Depth() >= depth {
			ex.S.Pop()
		}
	}()
	ex.RunMain(fn)
	end = "done"
	if ex.wantWitness {
		if ex.S.Check() == SatRes {
			nd, err := ex.ndValues()
			if err == nil {
				ok := true
				ex.ObsValues = nil
				for _, o := range ex.Obs {
					var ts []*Term
					for _, t := range o.Terms {
						if !t.Const {
							ts = append(ts, t)
						}
					}
					vals, err := ex.S.Values(ts)
					if err != nil {
						ok = false
						break
					}
					var out []uint64
					k := 0
					for _, t := range o.Terms {
						if t.Const {
							out = append(out, t.U)
							continue
						}
						u, err := ParseValue(vals[k], t.Sort)
						k++
						if err != nil {
							ok = false
							break
						}
						out = append(out, u)
					}
					ex.ObsValues = append(ex.ObsValues, out)
				}
				if ok {
					ex.Witness = &Violation{ND: nd}
				}
			}
		}
	}
	return
}

func trimStack(s string) string {
	lines := strings.Split(s, "\n")
	var out []string
	for _, l := range lines {
		if strings.Contains(l, "symgo/sym") || strings.Contains(l, "/sym/") {
			out = append(out, strings.TrimSpace(l))
		}
		if len(out) > 14 {
			break
		}
	}
	return strings.Join(out, "\n")
}

var _ = os.Getenv
