package sym

import (
	"fmt"
	"go/constant"
	"go/token"
	"go/types"
	"math"
	"strings"
	"sync"

	"golang.org/x/tools/go/ssa"
)

// Program is the immutable, shared part: the SSA program and per-function layouts.
type Program struct {
	SSA   *ssa.Program
	Fset  *token.FileSet
	infos sync.Map // *ssa.Function -> *fnInfo
	names sync.Map // *ssa.Function -> string
	pkgPaths sync.Map
	// NondetRange lists functions in which `range` over a map visits entries in an arbitrary
	// (decision) order; elsewhere insertion order is used.
	NondetRange map[string]bool
	// InitPkgs lists package paths whose init() is executed (imports' inits skipped) on first global access.
	InitPkgs map[string]bool
	// RepoPrefix: import-path prefix of the repository under test (its packages' own init bodies are executed).
	RepoPrefix string
}

// fnName caches ssa.Function.String(), which is expensive.
func (p *Program) fnName(fn *ssa.Function) string {
	if v, ok := p.names.Load(fn); ok {
		return v.(string)
	}
	s := fn.String()
	p.names.Store(fn, s)
	return s
}

type fnInfo struct {
	index map[ssa.Value]int
	n     int
}

func (p *Program) info(fn *ssa.Function) *fnInfo {
	if v, ok := p.infos.Load(fn); ok {
		return v.(*fnInfo)
	}
	fi := &fnInfo{index: map[ssa.Value]int{}}
	add := func(v ssa.Value) {
		if _, ok := fi.index[v]; !ok {
			fi.index[v] = fi.n
			fi.n++
		}
	}
	for _, p := range fn.Params {
		add(p)
	}
	for _, fv := range fn.FreeVars {
		add(fv)
	}
	for _, b := range fn.Blocks {
		for _, in := range b.Instrs {
			if v, ok := in.(ssa.Value); ok {
				add(v)
			}
		}
	}
	v, _ := p.infos.LoadOrStore(fn, fi)
	return v.(*fnInfo)
}

type deferred struct {
	fn   Value
	args []Value
	call *ssa.CallCommon
}

type Frame struct {
	fn     *ssa.Function
	info   *fnInfo
	loc    []Value
	block  *ssa.BasicBlock
	prev   *ssa.BasicBlock
	pc     int
	defers []deferred
	// where to put the result in the caller
	retTo   ssa.Value // the *ssa.Call instruction in caller (nil: discard)
	results Value
	// runningDefers: set while executing RunDefers / function exit
	onReturn func(res Value) // engine continuation (used by intercepts that call back)
	rangeIt  map[ssa.Value]*mapIter
}

type ThreadState int

const (
	TRunnable ThreadState = iota
	TBlocked
	TDone
)

type Thread struct {
	ID     int
	Stack  []*Frame
	State  ThreadState
	Wait   string // description of what it is blocked on
	IsMain bool
	Name   string
	// vector clock etc. for race detection live in race.go
	ParSlot   int // >0 when created by Par
	skipSched bool
	busy      bool // inside an engine intrinsic that runs other threads (Quiesce, Yield, FireTickers)
}

// pathEnd is panicked to unwind the Go stack when a path terminates.
type pathEnd struct{ reason string }

// EngineError is panicked when the engine cannot follow the code (unsupported construct).
type EngineError struct{ Msg string }

func (e *Exec) unsupported(msg string) {
	where := ""
	if e.cur != nil && len(e.cur.Stack) > 0 {
		f := e.cur.Stack[len(e.cur.Stack)-1]
		where = " in " + f.fn.String()
		if f.pc > 0 && f.pc <= len(f.block.Instrs) {
			in := f.block.Instrs[f.pc-1]
			where += " at " + e.P.Fset.Position(in.Pos()).String() + " [" + in.String() + "]"
		}
	}
	panic(EngineError{Msg: "unsupported: " + msg + where + " | stack: " + e.where()})
}

func (e *Exec) top() *Frame { return e.cur.Stack[len(e.cur.Stack)-1] }

func (e *Exec) get(f *Frame, v ssa.Value) Value {
	switch x := v.(type) {
	case *ssa.Const:
		return e.constVal(x)
	case *ssa.Function:
		return &FuncV{Fn: x}
	case *ssa.Global:
		return &Pointer{Obj: e.global(x)}
	case *ssa.Builtin:
		return &FuncV{Builtin: x.Name()}
	}
	i, ok := f.info.index[v]
	if !ok {
		e.unsupported(fmt.Sprintf("unknown ssa value %T %s", v, v.Name()))
	}
	r := f.loc[i]
	if r == nil {
		e.unsupported(fmt.Sprintf("use of unset ssa value %s (%T)", v.Name(), v))
	}
	return r
}

func (e *Exec) set(f *Frame, v ssa.Value, val Value) {
	f.loc[f.info.index[v]] = val
}

func (e *Exec) constVal(c *ssa.Const) Value {
	t := c.Type()
	if c.Value == nil {
		return e.zero(t)
	}
	switch u := t.Underlying().(type) {
	case *types.Basic:
		switch {
		case u.Info()&types.IsBoolean != 0:
			return e.C.Bool(constant.BoolVal(c.Value))
		case u.Info()&types.IsString != 0:
			return e.C.Str(constant.StringVal(c.Value))
		case u.Info()&types.IsInteger != 0:
			w := intWidth(u)
			if i, ok := constant.Int64Val(constant.ToInt(c.Value)); ok {
				return e.C.BVConst(w, uint64(i))
			}
			if ui, ok := constant.Uint64Val(constant.ToInt(c.Value)); ok {
				return e.C.BVConst(w, ui)
			}
		case u.Info()&types.IsFloat != 0:
			f, _ := constant.Float64Val(c.Value)
			if u.Kind() == types.Float32 {
				f32, _ := constant.Float32Val(c.Value)
				return e.C.FPConst32(f32)
			}
			return e.C.FPConst64(f)
		}
	case *types.TypeParam:
	}
	e.unsupported("constant " + c.String())
	return nil
}

func (e *Exec) global(g *ssa.Global) *Object {
	if o, ok := e.globals[g]; ok {
		return o
	}
	// run package init (own body only) for whitelisted packages, once
	if g.Pkg != nil && e.P.InitPkgs[g.Pkg.Pkg.Path()] && !e.initDone[g.Pkg] {
		e.initDone[g.Pkg] = true
		e.runInit(g.Pkg)
		if o, ok := e.globals[g]; ok {
			return o
		}
	}
	// packages of the repository under test: their own initialiser runs too (package-level maps, sentinel errors,
	// caches a change may introduce); the metric vectors it creates are opaque handles named after their variable
	if g.Pkg != nil && strings.HasPrefix(g.Pkg.Pkg.Path(), e.P.RepoPrefix) && e.P.RepoPrefix != "" && !strings.Contains(g.Pkg.Pkg.Path(), "/internal/verif") && !e.initDone[g.Pkg] {
		e.initDone[g.Pkg] = true
		e.runInit(g.Pkg)
		for _, mem := range g.Pkg.Members {
			mg, ok := mem.(*ssa.Global)
			if !ok {
				continue
			}
			o, ok := e.globals[mg]
			if !ok {
				continue
			}
			if p, ok := o.Val.(*Pointer); ok && !p.IsNil() {
				if ov, ok := p.Obj.Val.(*OpaqueV); ok && ov.Tag == "prom:pending" {
					ov.Tag = "global:" + mg.Pkg.Pkg.Path() + "." + mg.Name()
					p.Obj.Note = ov.Tag
				}
			}
		}
		if o, ok := e.globals[g]; ok {
			return o
		}
	}
	elem := g.Type().(*types.Pointer).Elem()
	var v Value
	if pt, ok := elem.Underlying().(*types.Pointer); ok && g.Pkg != nil && !e.P.InitPkgs[g.Pkg.Pkg.Path()] {
		// uninitialised global pointer to an external object (e.g. prometheus vectors): opaque handle named after the global
		_ = pt
		tag := "global:" + g.Pkg.Pkg.Path() + "." + g.Name()
		obj := e.newObject(pt.Elem(), &OpaqueV{Tag: tag}, tag)
		v = &Pointer{Obj: obj}
	} else {
		v = e.zero(elem)
	}
	o := e.newObject(elem, v, "global "+g.String())
	e.globals[g] = o
	return o
}

// runInit executes pkg.init synchronously, skipping calls to other packages' init.
func (e *Exec) runInit(pkg *ssa.Package) {
	fn := pkg.Func("init")
	if fn == nil || len(fn.Blocks) == 0 {
		return
	}
	e.callSync(&FuncV{Fn: fn}, nil)
}

// callSync runs a function to completion on a nested interpreter loop (used for inits and engine callbacks).
func (e *Exec) callSync(fv *FuncV, args []Value) Value {
	th := e.cur
	base := len(th.Stack)
	var out Value
	done := false
	e.pushCall(fv, args, nil, func(res Value) { out = res; done = true })
	for !done {
		if len(th.Stack) <= base {
			break
		}
		if !e.step() {
			e.unsupported("blocking operation inside synchronous engine callback")
		}
	}
	return out
}

// pushCall pushes a frame for fv (or executes an intercept / builtin directly).
// retTo: instruction in the caller frame receiving the result; onReturn: engine continuation.
func (e *Exec) pushCall(fv *FuncV, args []Value, retTo ssa.Value, onReturn func(Value)) {
	fn := fv.Fn
	if fn == nil {
		e.fail("nil-func", "call of nil function")
	}
	if len(fn.Blocks) == 0 {
		e.unsupported("call to function without body: " + fn.String())
	}
	if len(e.cur.Stack) > 400 {
		e.unsupported("call depth exceeded in " + fn.String())
	}
	fi := e.P.info(fn)
	fr := &Frame{fn: fn, info: fi, loc: make([]Value, fi.n), block: fn.Blocks[0], retTo: retTo, onReturn: onReturn}
	if len(args) != len(fn.Params) {
		e.unsupported(fmt.Sprintf("arity mismatch calling %s: %d args for %d params", fn, len(args), len(fn.Params)))
	}
	for i, p := range fn.Params {
		fr.loc[fi.index[p]] = args[i]
	}
	for i, fvv := range fn.FreeVars {
		fr.loc[fi.index[fvv]] = fv.Bindings[i]
	}
	e.cur.Stack = append(e.cur.Stack, fr)
	e.Stats.Calls++
	e.noteFn(fn)
}

// step executes one instruction of the current thread. Returns false if the thread blocked
// (pc not advanced) or finished.
func (e *Exec) step() bool {
	th := e.cur
	if len(th.Stack) == 0 {
		th.State = TDone
		return false
	}
	f := th.Stack[len(th.Stack)-1]
	if f.pc >= len(f.block.Instrs) {
		e.unsupported("fell off block end in " + f.fn.String())
	}
	in := f.block.Instrs[f.pc]
	f.pc++
	e.Stats.Steps++
	if e.termLabel != "" && e.Stats.Steps > e.termBudget {
		label := e.termLabel
		e.termLabel = ""
		if e.S.Check() == SatRes {
			e.recordViolation("wedge", label, fmt.Sprintf("no return within the step budget (%s): the call spins", label), nil)
		}
		panic(pathEnd{"wedge"})
	}
	if e.Stats.Steps > e.MaxSteps {
		e.unsupported(fmt.Sprintf("step budget exceeded (%d) — unbounded loop?", e.MaxSteps))
	}
	blocked := e.exec(f, in)
	if blocked {
		f.pc--
		th.State = TBlocked
		return false
	}
	return true
}

func (e *Exec) jump(f *Frame, to *ssa.BasicBlock) {
	f.prev = f.block
	f.block = to
	f.pc = 0
	// evaluate phis simultaneously
	var phis []*ssa.Phi
	for _, in := range to.Instrs {
		if p, ok := in.(*ssa.Phi); ok {
			phis = append(phis, p)
		} else {
			break
		}
	}
	if len(phis) > 0 {
		idx := -1
		for i, p := range to.Preds {
			if p == f.prev {
				idx = i
				break
			}
		}
		vals := make([]Value, len(phis))
		for i, p := range phis {
			vals[i] = e.get(f, p.Edges[idx])
		}
		for i, p := range phis {
			e.set(f, p, vals[i])
		}
		f.pc = len(phis)
	}
}

// exec executes one instruction; returns true if the thread must block (retry later).
func (e *Exec) exec(f *Frame, in ssa.Instruction) bool {
	switch x := in.(type) {
	case *ssa.DebugRef:
		return false
	case *ssa.Alloc:
		t := x.Type().(*types.Pointer).Elem()
		obj := e.newObject(t, e.zero(t), "alloc "+x.Comment)
		e.set(f, x, &Pointer{Obj: obj})
	case *ssa.UnOp:
		e.set(f, x, e.unop(f, x))
	case *ssa.BinOp:
		e.set(f, x, e.binop(x.Op, e.get(f, x.X), e.get(f, x.Y), x.X.Type(), x.Y.Type()))
	case *ssa.Store:
		p := e.get(f, x.Addr).(*Pointer)
		e.raceAccess(p, true)
		e.store(p, e.get(f, x.Val))
	case *ssa.FieldAddr:
		p := e.get(f, x.X).(*Pointer)
		if p.IsNil() {
			e.fail("nil-deref", "nil pointer dereference (field address "+fieldName(x.X.Type(), x.Field)+")")
		}
		e.set(f, x, p.sub(x.Field))
	case *ssa.Field:
		s := e.get(f, x.X).(*StructV)
		e.set(f, x, copyVal(s.F[x.Field]))
	case *ssa.IndexAddr:
		e.set(f, x, e.indexAddr(f, x))
	case *ssa.Index:
		e.set(f, x, e.index(f, x))
	case *ssa.Jump:
		e.jump(f, f.block.Succs[0])
	case *ssa.If:
		c := e.get(f, x.Cond).(*Term)
		if e.Branch(c) {
			e.jump(f, f.block.Succs[0])
		} else {
			e.jump(f, f.block.Succs[1])
		}
	case *ssa.Phi:
		e.unsupported("phi reached directly")
	case *ssa.Return:
		var res Value
		switch len(x.Results) {
		case 0:
		case 1:
			res = e.get(f, x.Results[0])
		default:
			tv := make(TupleV, len(x.Results))
			for i, r := range x.Results {
				tv[i] = e.get(f, r)
			}
			res = tv
		}
		e.doReturn(f, res)
	case *ssa.RunDefers:
		// state machine: run the most recent deferred call, then re-execute RunDefers until none is left
		if len(f.defers) > 0 {
			d := f.defers[len(f.defers)-1]
			fv := d.fn.(*FuncV)
			_, handled, blocked := e.dispatch(fv, d.args, d.call, nil)
			if blocked {
				return true
			}
			f.defers = f.defers[:len(f.defers)-1]
			f.pc-- // come back here afterwards
			if !handled {
				e.pushCall(fv, d.args, nil, nil)
			}
		}
	case *ssa.Defer:
		fn, args, blocked := e.prepareCall(f, &x.Call)
		_ = blocked
		f.defers = append(f.defers, deferred{fn: fn, args: args, call: &x.Call})
	case *ssa.Go:
		fn, args, _ := e.prepareCall(f, &x.Call)
		e.spawn(fn, args, &x.Call)
	case *ssa.Call:
		return e.call(f, x)
	case *ssa.MakeInterface:
		e.set(f, x, &IfaceV{Typ: x.X.Type(), Val: e.get(f, x.X)})
	case *ssa.ChangeInterface:
		e.set(f, x, e.get(f, x.X))
	case *ssa.ChangeType:
		e.set(f, x, e.get(f, x.X))
	case *ssa.Convert:
		e.set(f, x, e.convert(e.get(f, x.X), x.X.Type(), x.Type()))
	case *ssa.MakeClosure:
		b := make([]Value, len(x.Bindings))
		for i, bv := range x.Bindings {
			b[i] = e.get(f, bv)
		}
		e.set(f, x, &FuncV{Fn: x.Fn.(*ssa.Function), Bindings: b})
	case *ssa.MakeMap:
		e.nextObj++
		e.set(f, x, &MapV{M: &MapObj{ID: e.nextObj, Typ: x.Type().Underlying().(*types.Map)}})
	case *ssa.MakeChan:
		sz := e.concreteInt(e.get(f, x.Size), "channel size")
		e.nextObj++
		e.set(f, x, &ChanV{C: &ChanObj{ID: e.nextObj, Cap: sz, Elem: x.Type().Underlying().(*types.Chan).Elem()}})
	case *ssa.MakeSlice:
		e.set(f, x, e.makeSlice(f, x))
	case *ssa.Slice:
		e.set(f, x, e.sliceOp(f, x))
	case *ssa.MapUpdate:
		m := e.get(f, x.Map).(*MapV)
		if m.M == nil {
			e.fail("nil-map", "assignment to entry in nil map")
		}
		e.raceMap(m.M, true)
		e.mapUpdate(m.M, e.get(f, x.Key), e.get(f, x.Value))
	case *ssa.Lookup:
		e.set(f, x, e.lookup(f, x))
	case *ssa.Range:
		e.set(f, x, e.rangeStart(f, x))
	case *ssa.Next:
		e.set(f, x, e.rangeNext(f, x))
	case *ssa.Extract:
		e.set(f, x, e.get(f, x.Tuple).(TupleV)[x.Index])
	case *ssa.TypeAssert:
		e.set(f, x, e.typeAssert(f, x))
	case *ssa.Panic:
		v := e.get(f, x.X)
		e.fail("panic", "explicit panic: "+e.describe(v))
	case *ssa.Send:
		// queueing a message for a client is a scheduling point (the native scheduler has the matching hook in
		// handler.send / handler.sendMsg): a relay that sends outside the session lock can be overtaken here
		if fn := f.fn.String(); fn == "(*github.com/aukilabs/hagall/websocket.handler).send" || fn == "(*github.com/aukilabs/hagall/websocket.handler).sendMsg" {
			e.schedPoint("send")
		}
		ch := e.get(f, x.Chan).(*ChanV)
		return e.chanSend(ch, e.get(f, x.X))
	case *ssa.Select:
		return e.selectOp(f, x)
	case *ssa.SliceToArrayPointer:
		e.unsupported("SliceToArrayPointer")
	default:
		e.unsupported(fmt.Sprintf("instruction %T", in))
	}
	return false
}

func fieldName(t types.Type, i int) string {
	if p, ok := t.Underlying().(*types.Pointer); ok {
		if s, ok := p.Elem().Underlying().(*types.Struct); ok && i < s.NumFields() {
			return s.Field(i).Name()
		}
	}
	return fmt.Sprint(i)
}

func (e *Exec) doReturn(f *Frame, res Value) {
	th := e.cur
	if len(f.defers) > 0 {
		// functions with defers always have RunDefers before Return in SSA, so this only
		// happens on panics; nothing to do
	}
	th.Stack = th.Stack[:len(th.Stack)-1]
	if f.onReturn != nil {
		f.onReturn(res)
		return
	}
	if len(th.Stack) == 0 {
		th.State = TDone
		return
	}
	if f.retTo != nil {
		caller := th.Stack[len(th.Stack)-1]
		if res == nil {
			res = TupleV{}
		}
		e.set(caller, f.retTo, res)
	}
}

func (e *Exec) concreteInt(v Value, what string) int {
	t := v.(*Term)
	if !t.Const {
		// try to concretise through the solver: unique value under path condition?
		e.unsupported("symbolic " + what)
	}
	return int(sext(t.U, t.Sort.W))
}

// ---- unary / binary ops ----

func (e *Exec) unop(f *Frame, x *ssa.UnOp) Value {
	v := e.get(f, x.X)
	switch x.Op {
	case token.MUL: // load
		p := v.(*Pointer)
		if p.IsNil() {
			e.fail("nil-deref", "nil pointer dereference reading "+x.X.Name()+" ("+x.X.Type().String()+")")
		}
		e.raceAccess(p, false)
		return e.load(p)
	case token.NOT:
		return e.C.Not(v.(*Term))
	case token.SUB:
		t := v.(*Term)
		if t.Sort.K == SFP {
			return e.C.FPNeg(t)
		}
		return e.C.BVNeg(t)
	case token.XOR:
		return e.C.BVNot(v.(*Term))
	case token.ARROW:
		ch := v.(*ChanV)
		val, ok, blocked := e.chanRecv(ch)
		if blocked {
			panic(blockSignal{})
		}
		if x.CommaOk {
			return TupleV{val, e.C.Bool(ok)}
		}
		return val
	}
	e.unsupported("unop " + x.Op.String())
	return nil
}

// blockSignal is panicked by value-producing ops that must block; recovered in runThread.
type blockSignal struct{}

func (e *Exec) binop(op token.Token, a, b Value, ta, tb types.Type) Value {
	c := e.C
	switch op {
	case token.EQL:
		return e.equal(a, b, ta)
	case token.NEQ:
		return c.Not(e.equal(a, b, ta))
	}
	x, ok1 := a.(*Term)
	y, ok2 := b.(*Term)
	if !ok1 || !ok2 {
		e.unsupported(fmt.Sprintf("binop %s on %T,%T", op, a, b))
	}
	if isString(ta) {
		sx, okx := c.StrValue(x)
		sy, oky := c.StrValue(y)
		switch op {
		case token.ADD:
			if okx && oky {
				return c.Str(sx + sy)
			}
			return c.App("str.concat", IntSort, x, y)
		case token.LSS, token.LEQ, token.GTR, token.GEQ:
			if okx && oky {
				switch op {
				case token.LSS:
					return c.Bool(sx < sy)
				case token.LEQ:
					return c.Bool(sx <= sy)
				case token.GTR:
					return c.Bool(sx > sy)
				default:
					return c.Bool(sx >= sy)
				}
			}
		}
		e.unsupported("string binop " + op.String() + " on symbolic strings")
	}
	if x.Sort.K == SFP {
		switch op {
		case token.ADD:
			return c.FPBin("fp.add", x, y)
		case token.SUB:
			return c.FPBin("fp.sub", x, y)
		case token.MUL:
			return c.FPBin("fp.mul", x, y)
		case token.QUO:
			return c.FPBin("fp.div", x, y)
		case token.LSS:
			return c.FPCmp("fp.lt", x, y)
		case token.LEQ:
			return c.FPCmp("fp.leq", x, y)
		case token.GTR:
			return c.FPCmp("fp.gt", x, y)
		case token.GEQ:
			return c.FPCmp("fp.geq", x, y)
		}
		e.unsupported("float binop " + op.String())
	}
	if x.Sort.K == SBool {
		switch op {
		case token.AND, token.LAND:
			return c.And(x, y)
		case token.OR, token.LOR:
			return c.Or(x, y)
		}
		e.unsupported("bool binop " + op.String())
	}
	signed := isSigned(ta)
	switch op {
	case token.ADD:
		return c.BVAdd(x, y)
	case token.SUB:
		return c.BVSub(x, y)
	case token.MUL:
		return c.BVMul(x, y)
	case token.QUO, token.REM:
		nz := c.Not(c.Eq(y, c.BVConst(y.Sort.W, 0)))
		e.implicit(nz, "div-zero", "integer divide by zero")
		if signed {
			if op == token.QUO {
				return c.BVBin("bvsdiv", x, y)
			}
			return c.BVBin("bvsrem", x, y)
		}
		if op == token.QUO {
			return c.BVBin("bvudiv", x, y)
		}
		return c.BVBin("bvurem", x, y)
	case token.AND:
		return c.BVBin("bvand", x, y)
	case token.OR:
		return c.BVBin("bvor", x, y)
	case token.XOR:
		return c.BVBin("bvxor", x, y)
	case token.AND_NOT:
		return c.BVBin("bvand", x, c.BVNot(y))
	case token.SHL, token.SHR:
		// shift count may have a different width; normalise to x's width (saturating for wide counts)
		yy := y
		if y.Sort.W != x.Sort.W {
			if y.Sort.W > x.Sort.W && !y.Const {
				// saturate
				big := c.Not(c.ULT(y, c.BVConst(y.Sort.W, uint64(x.Sort.W))))
				yy = c.Ite(big, c.BVConst(x.Sort.W, uint64(x.Sort.W)), c.BVConv(y, x.Sort.W, false))
			} else if y.Const && y.U >= uint64(x.Sort.W) {
				yy = c.BVConst(x.Sort.W, uint64(x.Sort.W))
			} else {
				yy = c.BVConv(y, x.Sort.W, false)
			}
		}
		if op == token.SHL {
			return c.BVBin("bvshl", x, yy)
		}
		if signed {
			return c.BVBin("bvashr", x, yy)
		}
		return c.BVBin("bvlshr", x, yy)
	case token.LSS:
		if signed {
			return c.SLT(x, y)
		}
		return c.ULT(x, y)
	case token.LEQ:
		if signed {
			return c.SLE(x, y)
		}
		return c.ULE(x, y)
	case token.GTR:
		if signed {
			return c.SLT(y, x)
		}
		return c.ULT(y, x)
	case token.GEQ:
		if signed {
			return c.SLE(y, x)
		}
		return c.ULE(y, x)
	}
	e.unsupported("binop " + op.String())
	return nil
}

// equal builds the boolean term for Go's == on two values of static type t.
func (e *Exec) equal(a, b Value, t types.Type) *Term {
	c := e.C
	switch x := a.(type) {
	case *Term:
		y, ok := b.(*Term)
		if !ok {
			e.unsupported(fmt.Sprintf("== between %T and %T", a, b))
		}
		if x.Sort.K == SFP {
			return c.FPCmp("fp.eq", x, y)
		}
		return c.Eq(x, y)
	case *Pointer:
		y, ok := b.(*Pointer)
		if !ok {
			e.unsupported(fmt.Sprintf("== between %T and %T", a, b))
		}
		return c.Bool(samePointer(x, y))
	case *IfaceV:
		y, ok := b.(*IfaceV)
		if !ok {
			e.unsupported(fmt.Sprintf("== between %T and %T", a, b))
		}
		if x.Typ == nil || y.Typ == nil {
			return c.Bool(x.Typ == nil && y.Typ == nil)
		}
		if !types.Identical(x.Typ, y.Typ) {
			return c.False
		}
		return e.equal(x.Val, y.Val, x.Typ)
	case *StructV:
		y := b.(*StructV)
		st, _ := t.Underlying().(*types.Struct)
		r := c.True
		for i := range x.F {
			var ft types.Type
			if st != nil {
				ft = st.Field(i).Type()
			}
			r = c.And(r, e.equal(x.F[i], y.F[i], ft))
		}
		return r
	case *ArrayV:
		y := b.(*ArrayV)
		r := c.True
		var et types.Type
		if at, ok := t.Underlying().(*types.Array); ok {
			et = at.Elem()
		}
		for i := range x.E {
			r = c.And(r, e.equal(x.E[i], y.E[i], et))
		}
		return r
	case *MapV:
		y := b.(*MapV)
		return c.Bool(x.M == y.M)
	case *ChanV:
		y := b.(*ChanV)
		return c.Bool(x.C == y.C)
	case *SliceV:
		y, ok := b.(*SliceV)
		if ok && (x.Arr == nil || y.Arr == nil) {
			return c.Bool(x.Arr == nil && y.Arr == nil)
		}
		if yb, ok := b.(*BytesV); ok && x.Arr == nil {
			return c.Eq(yb.Code, c.IntConst(0))
		}
	case *BytesV:
		if y, ok := b.(*SliceV); ok && y.Arr == nil {
			return c.Eq(x.Code, c.IntConst(0))
		}
	case *FuncV:
		y := b.(*FuncV)
		if x.Fn == nil && x.Builtin == "" || y.Fn == nil && y.Builtin == "" {
			return c.Bool((x.Fn == nil && x.Builtin == "") == (y.Fn == nil && y.Builtin == ""))
		}
	case *OpaqueV:
		if y, ok := b.(*OpaqueV); ok {
			if x.Tag == "hash" && y.Tag == "hash" {
				return c.Eq(x.Data.(*Term), y.Data.(*Term))
			}
			return c.Bool(x == y)
		}
	}
	e.unsupported(fmt.Sprintf("== on %T,%T", a, b))
	return nil
}

// ---- conversions ----

func (e *Exec) convert(v Value, from, to types.Type) Value {
	c := e.C
	fu, tu := from.Underlying(), to.Underlying()
	fb, fok := fu.(*types.Basic)
	tb, tok := tu.(*types.Basic)
	if fok && tok {
		t := v.(*Term)
		switch {
		case fb.Info()&types.IsInteger != 0 && tb.Info()&types.IsInteger != 0:
			return c.BVConv(t, intWidth(tb), isSigned(from))
		case fb.Info()&types.IsFloat != 0 && tb.Info()&types.IsFloat != 0:
			w := 64
			if tb.Kind() == types.Float32 {
				w = 32
			}
			return c.FPToFP(t, w)
		case fb.Info()&types.IsInteger != 0 && tb.Info()&types.IsFloat != 0:
			w := 64
			if tb.Kind() == types.Float32 {
				w = 32
			}
			return c.IntToFP(t, w, isSigned(from))
		case fb.Info()&types.IsFloat != 0 && tb.Info()&types.IsInteger != 0:
			return e.floatToInt(t, intWidth(tb), isSigned(to))
		case fb.Info()&types.IsString != 0 && tb.Info()&types.IsString != 0:
			return t
		case fb.Kind() == types.UnsafePointer || tb.Kind() == types.UnsafePointer:
			return v
		case fb.Info()&types.IsInteger != 0 && tb.Info()&types.IsString != 0:
			if t.Const {
				return c.Str(string(rune(sext(t.U, t.Sort.W))))
			}
		}
	}
	// string <-> []byte
	if fok && fb.Info()&types.IsString != 0 {
		if st, ok := tu.(*types.Slice); ok {
			t := v.(*Term)
			if str, okc := c.StrValue(t); okc && len(str) <= 256 {
				// concrete string: a real byte slice
				arr := &ArrayV{E: make([]Value, len(str))}
				for i := 0; i < len(str); i++ {
					arr.E[i] = c.BVConst(8, uint64(str[i]))
				}
				if len(str) == 0 {
					return &SliceV{}
				}
				obj := e.newObject(types.NewArray(st.Elem(), int64(len(str))), arr, "[]byte(string)")
				return &SliceV{Arr: obj, Len: len(str), Cap: len(str)}
			}
			return &BytesV{Code: t}
		}
	}
	if tok && tb.Info()&types.IsString != 0 {
		switch x := v.(type) {
		case *BytesV:
			return x.Code
		case *SliceV:
			if s, ok := e.concreteBytes(x); ok {
				return c.Str(string(s))
			}
		}
	}
	if _, ok := fu.(*types.Pointer); ok {
		return v // pointer <-> unsafe.Pointer
	}
	if tok && tb.Kind() == types.UnsafePointer {
		return v
	}
	e.unsupported(fmt.Sprintf("convert %s -> %s", from, to))
	return nil
}

// floatToInt models Go's float->int conversion. In-range values truncate toward zero. For NaN and
// out-of-range values Go's result is implementation-defined; the amd64 result (0x8000... "integer
// indefinite") is used for signed 64/32-bit, an unconstrained fresh value otherwise.
func (e *Exec) floatToInt(t *Term, w int, signed bool) Value {
	c := e.C
	if t.Const {
		x := fpVal(t)
		if math.IsNaN(x) || math.IsInf(x, 0) || math.Abs(x) >= 9.2e18 {
			if signed && w == 64 {
				return c.BVConst(64, 1<<63)
			}
			if !signed && w == 64 {
				// amd64: uint64(f) for f >= 2^63 subtracts 2^63 first; NaN/-inf/+inf give 0x8000000000000000
				return c.BVConst(64, 1<<63)
			}
		}
		return c.FPToInt(t, w, signed)
	}
	t64 := c.FPToFP(t, 64)
	if w == 64 && signed {
		lo := c.FPConst64(-9223372036854775808.0)
		hi := c.FPConst64(9223372036854775808.0)
		in := c.And(c.FPCmp("fp.geq", t64, lo), c.FPCmp("fp.lt", t64, hi))
		return c.Ite(in, c.FPToInt(t64, 64, true), c.BVConst(64, 1<<63))
	}
	if w == 64 && !signed {
		// amd64 semantics: x < 2^63 -> int64 conversion (negative wrap via CVTTSD2SQ); else (x-2^63) conv ^ sign bit
		two63 := c.FPConst64(9223372036854775808.0)
		lo := c.FPConst64(-9223372036854775808.0)
		small := c.FPCmp("fp.lt", t64, two63)
		inSmall := c.And(small, c.FPCmp("fp.geq", t64, lo))
		a := c.Ite(inSmall, c.FPToInt(t64, 64, true), c.BVConst(64, 1<<63))
		shifted := c.FPBin("fp.sub", t64, two63)
		inBig := c.FPCmp("fp.lt", shifted, two63)
		b := c.Ite(inBig, c.BVBin("bvxor", c.FPToInt(shifted, 64, true), c.BVConst(64, 1<<63)), c.BVConst(64, 0))
		isnan := c.FPUn("fp.isNaN", t64)
		return c.Ite(isnan, c.BVConst(64, 1<<63), c.Ite(small, a, b))
	}
	// narrower targets: convert via int64 and truncate (matches amd64 for in-range, else arbitrary-but-deterministic)
	v64 := e.floatToInt(t, 64, true).(*Term)
	return c.BVConv(v64, w, true)
}

func (e *Exec) concreteBytes(s *SliceV) ([]byte, bool) {
	if s.Arr == nil {
		return nil, true
	}
	arr := s.Arr.Val.(*ArrayV)
	out := make([]byte, s.Len)
	for i := 0; i < s.Len; i++ {
		t, ok := arr.E[s.Off+i].(*Term)
		if !ok || !t.Const {
			return nil, false
		}
		out[i] = byte(t.U)
	}
	return out, true
}

// ---- slices / arrays ----

// AllocLimit: more elements than this in one allocation requested by a client message counts as a crash.
const AllocLimit = 1 << 31

// AllocExplore: symbolic allocation sizes are explored up to this many elements.
const AllocExplore = 12

func (e *Exec) makeSlice(f *Frame, x *ssa.MakeSlice) Value {
	// a symbolic size: the solver decides whether it can be negative or beyond AllocLimit elements (a
	// run-time panic or an allocation no server survives); what remains is explored for small sizes only
	for _, a := range []ssa.Value{x.Len, x.Cap} {
		if t := e.get(f, a).(*Term); !t.Const {
			c := e.C
			lim := c.BVConst(t.Sort.W, AllocLimit)
			e.implicit(c.And(c.SLE(c.BVConst(t.Sort.W, 0), t), c.SLE(t, lim)), "makeslice", fmt.Sprintf("makeslice: len out of range, or more than %d elements in one allocation", AllocLimit))
			e.noteStub(fmt.Sprintf("cut: allocations of symbolic size are checked against 0..%d elements, then explored up to %d elements only", AllocLimit, AllocExplore))
			e.Assume(c.SLE(t, c.BVConst(t.Sort.W, AllocExplore)))
			if e.S.Check() == Unsat {
				panic(pathEnd{"alloc-cut"})
			}
		}
	}
	n := e.sizeArg(e.get(f, x.Len), "make len")
	cp := e.sizeArg(e.get(f, x.Cap), "make cap")
	if n < 0 || cp < n {
		e.fail("makeslice", "makeslice: len/cap out of range")
	}
	if cp > 1<<20 {
		e.fail("makeslice-huge", fmt.Sprintf("makeslice: enormous allocation (%d elements)", cp))
	}
	et := x.Type().Underlying().(*types.Slice).Elem()
	arr := &ArrayV{E: make([]Value, cp)}
	for i := range arr.E {
		arr.E[i] = e.zero(et)
	}
	obj := e.newObject(types.NewArray(et, int64(cp)), arr, "makeslice")
	return &SliceV{Arr: obj, Off: 0, Len: n, Cap: cp}
}

// sizeArg concretises a size; symbolic sizes are forked over via the solver (small domains) or rejected.
func (e *Exec) sizeArg(v Value, what string) int {
	t := v.(*Term)
	if t.Const {
		return int(sext(t.U, t.Sort.W))
	}
	return e.concretize(t, what)
}

func (e *Exec) sliceLen(v Value) *Term {
	switch s := v.(type) {
	case *SliceV:
		return e.C.BVConst(64, uint64(s.Len))
	case *BytesV:
		return e.bytesLen(s.Code)
	}
	e.unsupported(fmt.Sprintf("len of %T", v))
	return nil
}

func (e *Exec) bytesLen(code *Term) *Term {
	if s, ok := e.C.StrValue(code); ok {
		return e.C.BVConst(64, uint64(len(s)))
	}
	return e.C.App("len!", BV(64), code)
}

func (e *Exec) indexAddr(f *Frame, x *ssa.IndexAddr) Value {
	base := e.get(f, x.X)
	idx := e.get(f, x.Index).(*Term)
	switch b := base.(type) {
	case *SliceV:
		i := e.boundedIndex(idx, b.Len, isSigned(x.Index.Type()))
		return (&Pointer{Obj: b.Arr}).sub(b.Off + i)
	case *Pointer: // pointer to array
		if b.IsNil() {
			e.fail("nil-deref", "nil pointer dereference (index)")
		}
		at := x.X.Type().Underlying().(*types.Pointer).Elem().Underlying().(*types.Array)
		i := e.boundedIndex(idx, int(at.Len()), isSigned(x.Index.Type()))
		return b.sub(i)
	case *BytesV:
		e.unsupported("indexing an opaque symbolic byte slice")
	}
	e.unsupported(fmt.Sprintf("IndexAddr on %T", base))
	return nil
}

// boundedIndex asserts 0 <= idx < n (implicit panic check) and returns a concrete index
// (forking over feasible values when symbolic).
func (e *Exec) boundedIndex(idx *Term, n int, signed bool) int {
	c := e.C
	if idx.Const {
		i := int(sext(idx.U, idx.Sort.W))
		if !signed {
			if idx.U >= uint64(n) {
				e.fail("index-range", fmt.Sprintf("index out of range [%d] with length %d", idx.U, n))
			}
			return int(idx.U)
		}
		if i < 0 || i >= n {
			e.fail("index-range", fmt.Sprintf("index out of range [%d] with length %d", i, n))
		}
		return i
	}
	inb := c.ULT(idx, c.BVConst(idx.Sort.W, uint64(n)))
	e.implicit(inb, "index-range", fmt.Sprintf("index out of range with length %d", n))
	// fork over concrete values
	for i := 0; i < n; i++ {
		if i == n-1 {
			// last candidate: forced under path condition
			e.Assume(c.Eq(idx, c.BVConst(idx.Sort.W, uint64(i))))
			return i
		}
		if e.Branch(c.Eq(idx, c.BVConst(idx.Sort.W, uint64(i)))) {
			return i
		}
	}
	e.unsupported("index into empty collection")
	return 0
}

func (e *Exec) index(f *Frame, x *ssa.Index) Value {
	base := e.get(f, x.X)
	idx := e.get(f, x.Index).(*Term)
	switch b := base.(type) {
	case *ArrayV:
		i := e.boundedIndex(idx, len(b.E), isSigned(x.Index.Type()))
		return copyVal(b.E[i])
	case *Term: // string indexing
		if s, ok := e.C.StrValue(b); ok && idx.Const {
			i := int(idx.U)
			if i >= len(s) {
				e.fail("index-range", "string index out of range")
			}
			return e.C.BVConst(8, uint64(s[i]))
		}
	}
	e.unsupported(fmt.Sprintf("Index on %T", base))
	return nil
}

func (e *Exec) sliceOp(f *Frame, x *ssa.Slice) Value {
	base := e.get(f, x.X)
	getc := func(v ssa.Value, def int) int {
		if v == nil {
			return def
		}
		return e.sizeArg(e.get(f, v), "slice bound")
	}
	switch b := base.(type) {
	case *SliceV:
		lo := getc(x.Low, 0)
		hi := getc(x.High, b.Len)
		mx := getc(x.Max, b.Cap)
		if lo < 0 || hi < lo || hi > b.Cap || mx < hi || mx > b.Cap {
			e.fail("slice-range", fmt.Sprintf("slice bounds out of range [%d:%d:%d] with capacity %d", lo, hi, mx, b.Cap))
		}
		if b.Arr == nil {
			return &SliceV{}
		}
		return &SliceV{Arr: b.Arr, Off: b.Off + lo, Len: hi - lo, Cap: mx - lo}
	case *Pointer: // *array
		if b.IsNil() {
			e.fail("nil-deref", "slice of nil array pointer")
		}
		arr := e.peek(b).(*ArrayV)
		n := len(arr.E)
		lo := getc(x.Low, 0)
		hi := getc(x.High, n)
		mx := getc(x.Max, n)
		if lo < 0 || hi < lo || hi > n || mx < hi || mx > n {
			e.fail("slice-range", "slice bounds out of range")
		}
		if len(b.Path) != 0 {
			e.unsupported("slicing an array embedded in another object")
		}
		return &SliceV{Arr: b.Obj, Off: lo, Len: hi - lo, Cap: mx - lo}
	case *Term: // string
		if s, ok := e.C.StrValue(b); ok {
			lo := getc(x.Low, 0)
			hi := getc(x.High, len(s))
			if lo < 0 || hi < lo || hi > len(s) {
				e.fail("slice-range", "string slice bounds out of range")
			}
			return e.C.Str(s[lo:hi])
		}
		// a symbolic string: bounds are checked against its length, the result is an uninterpreted substring of
		// the right length (equal arguments give equal results)
		c := e.C
		ln := e.bytesLen(b)
		lo, hi := c.BVConst(64, 0), ln
		if x.Low != nil {
			lo = c.BVConv(e.get(f, x.Low).(*Term), 64, true)
		}
		if x.High != nil {
			hi = c.BVConv(e.get(f, x.High).(*Term), 64, true)
		}
		e.implicit(c.And(c.SLE(c.BVConst(64, 0), lo), c.SLE(lo, hi), c.SLE(hi, ln)), "slice-range", "string slice bounds out of range")
		sub := c.App("str.substr!", IntSort, b, lo, hi)
		e.AssumeBenign(c.Eq(c.App("len!", BV(64), sub), c.BVSub(hi, lo)))
		// the whole string is itself
		if x.Low == nil && x.High == nil {
			return b
		}
		return sub
	case *BytesV:
		if x.Low == nil && x.High == nil {
			return b
		}
	}
	e.unsupported(fmt.Sprintf("Slice on %T", base))
	return nil
}

// peek reads a cell without copying (for internal navigation).
func (e *Exec) peek(p *Pointer) Value {
	v := p.Obj.Val
	for _, i := range p.Path {
		switch x := v.(type) {
		case *StructV:
			v = x.F[i]
		case *ArrayV:
			v = x.E[i]
		}
	}
	return v
}

// ---- type assertions ----

func (e *Exec) typeAssert(f *Frame, x *ssa.TypeAssert) Value {
	iv, ok := e.get(f, x.X).(*IfaceV)
	if !ok {
		e.unsupported(fmt.Sprintf("type assert on %T", e.get(f, x.X)))
	}
	okv := false
	var res Value
	if iv.Typ != nil {
		if types.IsInterface(x.AssertedType) {
			it := x.AssertedType.Underlying().(*types.Interface)
			okv = types.Implements(iv.Typ, it)
			if okv {
				res = iv
			}
		} else if types.Identical(iv.Typ, x.AssertedType) {
			okv = true
			res = iv.Val
		}
	}
	if x.CommaOk {
		if !okv {
			res = e.zero(x.AssertedType)
		}
		return TupleV{res, e.C.Bool(okv)}
	}
	if !okv {
		dyn := "nil"
		if iv.Typ != nil {
			dyn = iv.Typ.String()
		}
		e.fail("type-assert", fmt.Sprintf("interface conversion: interface is %s, not %s", dyn, x.AssertedType))
	}
	return res
}

func (e *Exec) describe(v Value) string {
	switch x := v.(type) {
	case *IfaceV:
		if x.Typ == nil {
			return "nil"
		}
		return x.Typ.String() + "(" + e.describe(x.Val) + ")"
	case *Term:
		if s, ok := e.C.StrValue(x); ok && x.Sort.K == SInt {
			return fmt.Sprintf("%q", s)
		}
		return e.C.SMT(x)
	}
	return strings.TrimPrefix(fmt.Sprintf("%T", v), "*sym.")
}
