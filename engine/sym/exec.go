package sym

import (
	"fmt"
	"go/types"
	"sort"
	"strings"

	"golang.org/x/tools/go/ssa"
)

// Decision is one recorded outcome on a path: a branch (N=2) or an n-way choice.
type Decision struct {
	V      int  // outcome index
	N      int  // number of alternatives
	Forced bool // only one alternative was feasible (no sibling to explore)
}

// NDEntry is one verifnd call: its kind and the term (or concrete decision) it produced.
type NDEntry struct {
	Kind string // u32,u64,i64,i32,f32,f64,bool,choice,bytes,str,sched,order
	Term *Term  // symbolic value (nil for decisions)
	Dec  int    // decision outcome for choice/bool/sched/order
	Max  int64
}

// Violation is a failed assertion / implicit check with a satisfying model.
type Violation struct {
	Kind    string // "assert", "panic", "nil-deref", "deadlock", "race", ...
	Label   string
	Keys    []string
	Msg     string
	Where   string
	ND      []NDValue // replay values in verifnd call order
	Trace   []Decision
	Harness string
}

type NDValue struct {
	Kind string `json:"kind"`
	V    uint64 `json:"v"`
	S    string `json:"s,omitempty"`
}

type Observation struct {
	Label string
	Terms []*Term
}

type Stats struct {
	Steps, Calls                        int
	Forks                               int
	AssertsChecked, AssertsTrivial      int
	ImplicitChecked, ImplicitTrivial    int
	Paths, InfeasiblePaths              int
	SchedPoints                         int
	Inconclusive                        int
}

// Exec executes one path (one run of the harness following a decision prefix).
type Exec struct {
	P *Program
	C *Ctx
	S *Solver

	prefix   []Decision
	trace    []Decision
	Pending  [][]Decision // sibling prefixes discovered on this run
	pathCond []*Term
	decided  map[int]bool

	threads []*Thread
	cur     *Thread
	nextObj int
	globals map[*ssa.Global]*Object
	initDone map[*ssa.Package]bool

	ND          []NDEntry
	Obs         []Observation
	Reached     map[string]bool
	Violations  []*Violation
	Incon       []string
	Stats       Stats
	MaxSteps    int
	termLabel   string // verifnd.Terminates obligation in force
	termBudget  int
	MaxDecisions int
	Harness     string
	FnSeen      map[*ssa.Function]bool
	ndSeq       int
	clock       *Term // last time.Now() mono reading
	gauges      map[string]*Term
	gaugeKeys   []string
	tickers     []*tickerObj
	ext         map[string]interface{} // scratch for intercept models (e.g. recorded calls)
	par         *parState
	Opts        *Options
	wantWitness bool
	Witness     *Violation // pseudo-violation carrying nd values + observations of a complete path
	ObsValues   [][]uint64
	violSeen    map[string]bool
	rd          *raceDetector
	reachOK     map[int]bool
	dirty       int // unchecked assumptions since the path condition was last known satisfiable
	probing     bool
}

type Options struct {
	Tier          string
	MaxPreempt    int
	QueryTimeout  int
	RaceDetect    bool
	KnownLabels   map[string]bool
}

func NewExec(p *Program, c *Ctx, s *Solver, prefix []Decision, opts *Options) *Exec {
	return &Exec{P: p, C: c, S: s, prefix: prefix, decided: map[int]bool{}, globals: map[*ssa.Global]*Object{},
		initDone: map[*ssa.Package]bool{}, Reached: map[string]bool{}, MaxSteps: 30_000_000, MaxDecisions: 400, FnSeen: map[*ssa.Function]bool{},
		gauges: map[string]*Term{}, ext: map[string]interface{}{}, Opts: opts, violSeen: map[string]bool{}}
}

func (e *Exec) noteFn(fn *ssa.Function) { e.FnSeen[fn] = true }

// ---- path condition, branching ----

// Assume adds c to the path condition (no feasibility check). A constant-false assumption ends the path.
func (e *Exec) Assume(c *Term) {
	if c.IsTrue() {
		return
	}
	if c.IsFalse() {
		panic(pathEnd{"infeasible"})
	}
	if v, ok := e.known(c); ok {
		if !v {
			panic(pathEnd{"infeasible"})
		}
		return
	}
	e.pathCond = append(e.pathCond, c)
	e.S.Assert(c)
	e.remember(c, true)
	e.dirty++
}

// AssumeBenign adds a constraint that cannot make the path condition unsatisfiable (the monotonic clock chain).
func (e *Exec) AssumeBenign(c *Term) {
	d := e.dirty
	e.Assume(c)
	e.dirty = d
}

func (e *Exec) known(c *Term) (bool, bool) {
	if c.Op == "not" {
		v, ok := e.decided[c.Args[0].ID]
		return !v, ok
	}
	v, ok := e.decided[c.ID]
	return v, ok
}

func (e *Exec) remember(c *Term, v bool) {
	if c.Op == "not" {
		e.decided[c.Args[0].ID] = !v
		return
	}
	e.decided[c.ID] = v
	if v && c.Op == "and" {
		for _, a := range c.Args {
			e.remember(a, true)
		}
	}
	if !v && c.Op == "or" {
		for _, a := range c.Args {
			e.remember(a, false)
		}
	}
}

// AssumeChecked adds an assumption and ends the path silently if it makes the path infeasible.
func (e *Exec) AssumeChecked(c *Term) {
	e.Assume(c)
	if !c.Const {
		switch e.S.Check() {
		case Unsat:
			panic(pathEnd{"infeasible"})
		case SatRes:
			e.dirty = 0
		}
	}
}

// Branch decides a boolean condition on this path, forking when both outcomes are feasible.
func (e *Exec) Branch(c *Term) bool {
	if c.Const {
		return c.U == 1
	}
	if v, ok := e.known(c); ok {
		return v
	}
	i := len(e.trace)
	if i < len(e.prefix) {
		d := e.prefix[i]
		e.trace = append(e.trace, d)
		v := d.V == 1
		if !d.Forced {
			dd := e.dirty
			if v {
				e.Assume(c)
			} else {
				e.Assume(e.C.Not(c))
			}
			e.dirty = dd // this side was found feasible when the decision was first made
		} else {
			e.remember(c, v)
		}
		return v
	}
	if len(e.trace) >= e.MaxDecisions {
		e.noteIncon(fmt.Sprintf("unwinding bound: more than %d decisions on one path", e.MaxDecisions))
		panic(pathEnd{"unwind-bound"})
	}
	rt := e.S.CheckWith(c)
	rf := e.S.CheckWith(e.C.Not(c))
	switch {
	case rt == Unsat && rf == Unsat:
		panic(pathEnd{"infeasible"})
	case rt == Unsat:
		e.trace = append(e.trace, Decision{V: 0, N: 2, Forced: true})
		e.remember(c, false)
		return false
	case rf == Unsat:
		e.trace = append(e.trace, Decision{V: 1, N: 2, Forced: true})
		e.remember(c, true)
		return true
	}
	if rt == UnknownRes || rf == UnknownRes {
		e.noteIncon("branch feasibility unknown")
	}
	// both feasible: take true now, queue false
	alt := append(append([]Decision{}, e.trace...), Decision{V: 0, N: 2})
	e.Pending = append(e.Pending, alt)
	e.trace = append(e.trace, Decision{V: 1, N: 2})
	e.Stats.Forks++
	wasClean := e.dirty == 0
	e.Assume(c)
	if wasClean && rt == SatRes {
		e.dirty = 0 // pathCond ∧ c was just found satisfiable
	}
	return true
}

// Choose makes an n-way decision (no constraint attached): harness Choice, schedules, map orders.
func (e *Exec) Choose(n int) int {
	if n <= 1 {
		return 0
	}
	i := len(e.trace)
	if i < len(e.prefix) {
		d := e.prefix[i]
		e.trace = append(e.trace, d)
		return d.V
	}
	for k := n - 1; k >= 1; k-- {
		alt := append(append([]Decision{}, e.trace...), Decision{V: k, N: n})
		e.Pending = append(e.Pending, alt)
	}
	e.trace = append(e.trace, Decision{V: 0, N: n})
	e.Stats.Forks += n - 1
	return 0
}

// concretize forks over the feasible values of a small-domain term.
func (e *Exec) concretize(t *Term, what string) int {
	// ask the solver for a value, branch on equality, repeat (bounded)
	for k := 0; k < 64; k++ {
		if e.S.Check() != SatRes {
			panic(pathEnd{"infeasible"})
		}
		vals, err := e.S.Values([]*Term{t})
		if err != nil {
			e.unsupported("concretize: " + err.Error())
		}
		u, err := ParseValue(vals[0], t.Sort)
		if err != nil {
			e.unsupported("concretize: " + err.Error())
		}
		cv := e.C.BVConst(t.Sort.W, u)
		if e.Branch(e.C.Eq(t, cv)) {
			return int(sext(u, t.Sort.W))
		}
	}
	e.unsupported("symbolic " + what + " with more than 64 feasible values")
	return 0
}

func (e *Exec) noteIncon(msg string) {
	e.Stats.Inconclusive++
	if len(e.Incon) < 20 {
		e.Incon = append(e.Incon, msg+" @ "+e.where())
	}
}

func (e *Exec) where() string {
	if e.cur == nil || len(e.cur.Stack) == 0 {
		return "?"
	}
	var parts []string
	for i := len(e.cur.Stack) - 1; i >= 0 && len(parts) < 6; i-- {
		f := e.cur.Stack[i]
		pos := ""
		if f.pc > 0 && f.pc <= len(f.block.Instrs) {
			p := e.P.Fset.Position(f.block.Instrs[f.pc-1].Pos())
			if p.IsValid() {
				fn := p.Filename
				if j := strings.LastIndex(fn, "/"); j >= 0 {
					if k := strings.LastIndex(fn[:j], "/"); k >= 0 {
						fn = fn[k+1:]
					}
				}
				pos = fmt.Sprintf("%s:%d", fn, p.Line)
			}
		}
		parts = append(parts, f.fn.Name()+"("+pos+")")
	}
	return strings.Join(parts, " < ")
}

// ---- assertions ----

// ndValues extracts replay values for all verifnd entries from the current model.
func (e *Exec) ndValues() ([]NDValue, error) {
	var ts []*Term
	for _, n := range e.ND {
		if n.Term != nil && !n.Term.Const {
			ts = append(ts, n.Term)
		}
	}
	vals, err := e.S.Values(ts)
	if err != nil {
		return nil, err
	}
	out := make([]NDValue, 0, len(e.ND))
	k := 0
	for _, n := range e.ND {
		if n.Term == nil {
			out = append(out, NDValue{Kind: n.Kind, V: uint64(n.Dec)})
			continue
		}
		if n.Term.Const {
			out = append(out, NDValue{Kind: n.Kind, V: n.Term.U})
			continue
		}
		u, err := ParseValue(vals[k], n.Term.Sort)
		k++
		if err != nil {
			return nil, err
		}
		nv := NDValue{Kind: n.Kind, V: u}
		if n.Kind == "str" {
			if s, ok := e.C.strOf[int64(u)]; ok {
				nv.S = s
			} else if lv, err := e.S.Values([]*Term{e.C.App("len!", BV(64), n.Term)}); err == nil && len(lv) == 1 {
				// an arbitrary string: the replay gets one of the model's length (its content is "sym-<code>" padded)
				if l, err := ParseValue(lv[0], BV(64)); err == nil && l > 0 && l <= 1<<16 {
					digits := fmt.Sprint(u)
					if uint64(len(digits)) > l-1 {
						digits = digits[uint64(len(digits))-(l-1):]
					}
					base := "s" + digits
					if l == 1 {
						base = fmt.Sprint(u % 10)
					}
					for uint64(len(base)) < l {
						base += "x"
					}
					nv.S = base
				}
			}
		}
		out = append(out, nv)
	}
	return out, nil
}

func (e *Exec) recordViolation(kind, label, msg string, keys []string) {
	// assumes the solver's current scope has a model (last check was sat)
	nd, err := e.ndValues()
	if err != nil {
		e.noteIncon("model extraction failed: " + err.Error())
		return
	}
	key := kind + "|" + label + "|" + strings.Join(keys, ",")
	v := &Violation{Kind: kind, Label: label, Keys: keys, Msg: msg, Where: e.where(), ND: nd,
		Trace: append([]Decision{}, e.trace...), Harness: e.Harness}
	_ = key
	e.Violations = append(e.Violations, v)
}

// AssertProp checks a harness assertion: query pathcond ∧ ¬c.
func (e *Exec) AssertProp(c *Term, label string, keys []string) {
	if c.IsTrue() {
		e.Stats.AssertsTrivial++
		return
	}
	if v, ok := e.known(c); ok && v {
		e.Stats.AssertsTrivial++
		return
	}
	e.Stats.AssertsChecked++
	neg := e.C.Not(c)
	e.S.Push()
	e.S.Assert(neg)
	r := e.S.Check()
	if r == SatRes {
		e.recordViolation("assert", label, "assertion "+label+" can fail", keys)
	}
	e.S.Pop()
	if r == UnknownRes {
		e.noteIncon("assertion " + label + " undecided (solver unknown/timeout)")
	}
	if c.IsFalse() {
		panic(pathEnd{"assert-false"})
	}
	// continue under the assumption that it held
	e.Assume(c)
	if r == SatRes {
		if e.S.Check() == Unsat {
			panic(pathEnd{"assert-always-fails"})
		}
	}
}

// implicit checks a run-time-panic side condition (must hold on every path).
func (e *Exec) implicit(c *Term, kind, msg string) {
	if c.IsTrue() {
		e.Stats.ImplicitTrivial++
		return
	}
	if v, ok := e.known(c); ok && v {
		e.Stats.ImplicitTrivial++
		return
	}
	e.Stats.ImplicitChecked++
	e.S.Push()
	e.S.Assert(e.C.Not(c))
	r := e.S.Check()
	if r == SatRes {
		e.recordViolation(kind, kind, msg, []string{e.topFuncName()})
	}
	e.S.Pop()
	if r == UnknownRes {
		e.noteIncon("implicit check " + kind + " undecided")
	}
	if c.IsFalse() {
		panic(pathEnd{kind})
	}
	e.Assume(c)
	if r == SatRes && e.S.Check() == Unsat {
		panic(pathEnd{kind})
	}
}

func (e *Exec) topFuncName() string {
	if e.cur == nil {
		return "?"
	}
	// innermost non-harness, non-engine function name
	for i := len(e.cur.Stack) - 1; i >= 0; i-- {
		fn := e.cur.Stack[i].fn
		return fn.String()
	}
	return "?"
}

// fail reports a definite run-time panic on the current (feasible) path and ends it.
func (e *Exec) fail(kind, msg string) {
	switch e.S.Check() {
	case SatRes:
		e.recordViolation(kind, kind, msg, []string{e.topFuncName()})
	case UnknownRes:
		e.noteIncon("run-time panic (" + kind + ") on a path whose feasibility the solver could not decide")
	}
	panic(pathEnd{kind})
}

// ---- maps ----

func (e *Exec) keyEqual(a, b Value, kt types.Type) *Term {
	return e.equal(a, b, kt)
}

// mapFind returns the entry matching key (forking on symbolic comparisons) or nil.
func (e *Exec) mapFind(m *MapObj, key Value) *MapEntry {
	kt := m.Typ.Key()
	// first pass: syntactic / constant matches avoid forks
	var sym []*MapEntry
	var syt []*Term
	for _, en := range m.Entries {
		if en.Deleted {
			continue
		}
		eq := e.keyEqual(key, en.Key, kt)
		if eq.IsTrue() {
			return en
		}
		if eq.IsFalse() {
			continue
		}
		if v, ok := e.known(eq); ok {
			if v {
				return en
			}
			continue
		}
		sym = append(sym, en)
		syt = append(syt, eq)
	}
	for i, en := range sym {
		if e.Branch(syt[i]) {
			return en
		}
	}
	return nil
}

func (e *Exec) mapUpdate(m *MapObj, key, val Value) {
	if en := e.mapFind(m, key); en != nil {
		en.Val = copyVal(val)
		return
	}
	m.Entries = append(m.Entries, &MapEntry{Key: copyVal(key), Val: copyVal(val)})
}

func (e *Exec) mapDelete(m *MapObj, key Value) {
	if m == nil {
		return
	}
	if en := e.mapFind(m, key); en != nil {
		en.Deleted = true
		out := m.Entries[:0:0]
		for _, x := range m.Entries {
			if x != en {
				out = append(out, x)
			}
		}
		m.Entries = out
	}
}

func (e *Exec) mapLen(m *MapObj) int {
	if m == nil {
		return 0
	}
	return len(m.Entries)
}

func (e *Exec) lookup(f *Frame, x *ssa.Lookup) Value {
	base := e.get(f, x.X)
	key := e.get(f, x.Index)
	switch b := base.(type) {
	case *MapV:
		vt := x.X.Type().Underlying().(*types.Map).Elem()
		var en *MapEntry
		if b.M != nil {
			e.raceMap(b.M, false)
			en = e.mapFind(b.M, key)
		}
		var v Value
		if en != nil {
			v = copyVal(en.Val)
		} else {
			v = e.zero(vt)
		}
		if x.CommaOk {
			return TupleV{v, e.C.Bool(en != nil)}
		}
		return v
	case *Term: // string index
		if s, ok := e.C.StrValue(b); ok {
			i := e.concreteInt(key, "string index")
			if i < 0 || i >= len(s) {
				e.fail("index-range", "string index out of range")
			}
			return e.C.BVConst(8, uint64(s[i]))
		}
	}
	e.unsupported(fmt.Sprintf("Lookup on %T", base))
	return nil
}

type mapIter struct {
	m       *MapObj
	entries []*MapEntry // snapshot
	pos     int
	nondet  bool
	str     string // for string iteration
	isStr   bool
}

func (e *Exec) rangeStart(f *Frame, x *ssa.Range) Value {
	base := e.get(f, x.X)
	switch b := base.(type) {
	case *MapV:
		it := &mapIter{m: b.M}
		if b.M != nil {
			e.raceMap(b.M, false)
			it.entries = append(it.entries, b.M.Entries...)
		}
		it.nondet = e.P.NondetRange[e.P.fnName(f.fn)]
		return &OpaqueV{Tag: "iter", Data: it}
	case *Term:
		if s, ok := e.C.StrValue(b); ok {
			return &OpaqueV{Tag: "iter", Data: &mapIter{isStr: true, str: s}}
		}
	}
	e.unsupported(fmt.Sprintf("Range over %T", base))
	return nil
}

func (e *Exec) rangeNext(f *Frame, x *ssa.Next) Value {
	it := e.get(f, x.Iter).(*OpaqueV).Data.(*mapIter)
	c := e.C
	if it.isStr {
		if it.pos >= len(it.str) {
			return TupleV{c.False, c.BVConst(64, 0), c.BVConst(32, 0)}
		}
		for i, r := range it.str[it.pos:] {
			_ = i
			p := it.pos
			it.pos += len(string(r))
			return TupleV{c.True, c.BVConst(64, uint64(p)), c.BVConst(32, uint64(r))}
		}
	}
	// skip deleted
	var live []*MapEntry
	for _, en := range it.entries[it.pos:] {
		if !en.Deleted {
			live = append(live, en)
		}
	}
	mt := x.Iter.(*ssa.Range).X.Type().Underlying().(*types.Map)
	if len(live) == 0 {
		it.pos = len(it.entries)
		return TupleV{c.False, e.zero(mt.Key()), e.zero(mt.Elem())}
	}
	var pick *MapEntry
	if it.nondet && len(live) > 1 {
		k := e.Choose(len(live))
		e.ND = append(e.ND, NDEntry{Kind: "order", Dec: k})
		pick = live[k]
		// move picked entry to the current position
		rest := it.entries[:it.pos:it.pos]
		rest = append(rest, pick)
		for _, en := range it.entries[it.pos:] {
			if en != pick {
				rest = append(rest, en)
			}
		}
		it.entries = rest
	} else {
		// advance to first live
		for it.entries[it.pos].Deleted {
			it.pos++
		}
		pick = it.entries[it.pos]
	}
	it.pos++
	return TupleV{c.True, copyVal(pick.Key), copyVal(pick.Val)}
}

// ---- calls ----

// prepareCall evaluates callee and arguments of a call site.
func (e *Exec) prepareCall(f *Frame, cc *ssa.CallCommon) (Value, []Value, bool) {
	var args []Value
	if cc.IsInvoke() {
		recv := e.get(f, cc.Value)
		iv, ok := recv.(*IfaceV)
		if !ok {
			if ov, ok2 := recv.(*OpaqueV); ok2 {
				// method call on an opaque value
				for _, a := range cc.Args {
					args = append(args, e.get(f, a))
				}
				return &FuncV{Builtin: "opaque-method:" + cc.Method.Name(), Recv: ov}, args, false
			}
			e.unsupported(fmt.Sprintf("invoke on %T", recv))
		}
		if iv.Typ == nil {
			e.fail("nil-deref", "method call on nil interface ("+cc.Method.Name()+")")
		}
		if ov, ok := iv.Val.(*OpaqueV); ok && !hasMethodBody(e.P.SSA, iv.Typ, cc.Method) {
			for _, a := range cc.Args {
				args = append(args, e.get(f, a))
			}
			return &FuncV{Builtin: "opaque-method:" + cc.Method.Name(), Recv: ov}, args, false
		}
		fn := e.lookupMethod(iv.Typ, cc.Method)
		if fn == nil {
			e.unsupported(fmt.Sprintf("method %s not found on %s", cc.Method.Name(), iv.Typ))
		}
		args = append(args, iv.Val)
		for _, a := range cc.Args {
			args = append(args, e.get(f, a))
		}
		return &FuncV{Fn: fn}, args, false
	}
	callee := e.get(f, cc.Value)
	for _, a := range cc.Args {
		args = append(args, e.get(f, a))
	}
	return callee, args, false
}

func hasMethodBody(prog *ssa.Program, t types.Type, m *types.Func) bool {
	sel := prog.MethodSets.MethodSet(t).Lookup(m.Pkg(), m.Name())
	if sel == nil {
		return false
	}
	fn := prog.MethodValue(sel)
	return fn != nil && len(fn.Blocks) > 0
}

func (e *Exec) lookupMethod(t types.Type, m *types.Func) *ssa.Function {
	sel := e.P.SSA.MethodSets.MethodSet(t).Lookup(m.Pkg(), m.Name())
	if sel == nil {
		return nil
	}
	return e.P.SSA.MethodValue(sel)
}

// call executes a Call instruction. Returns true if blocked.
func (e *Exec) call(f *Frame, x *ssa.Call) bool {
	callee, args, _ := e.prepareCall(f, &x.Call)
	fv, ok := callee.(*FuncV)
	if !ok {
		e.unsupported(fmt.Sprintf("call of %T", callee))
	}
	res, handled, blocked := e.dispatch(fv, args, &x.Call, x)
	if blocked {
		return true
	}
	if handled {
		if res == nil {
			res = TupleV{}
		}
		e.set(f, x, res)
		return false
	}
	e.pushCall(fv, args, x, nil)
	return false
}

// notHandled is returned by an intercept that declines: the real body is executed instead.
type notHandled struct{}

// dispatch handles builtins and intercepts. handled=false means: push a frame.
func (e *Exec) dispatch(fv *FuncV, args []Value, cc *ssa.CallCommon, site ssa.Value) (res Value, handled, blocked bool) {
	if fv.Builtin != "" {
		if strings.HasPrefix(fv.Builtin, "opaque-method:") {
			return e.opaqueMethod(fv, args, cc), true, false
		}
		return e.builtin(fv.Builtin, args, cc), true, false
	}
	if fv.Fn == nil {
		e.fail("nil-func", "call of nil function value")
	}
	if fv.Fn.Synthetic == "package initializer" && len(e.cur.Stack) > 0 {
		// package init chains are not followed: only whitelisted packages' own initialisers run (Program.InitPkgs)
		return nil, true, false
	}
	name := e.P.fnName(fv.Fn)
	if ic, ok := intercepts[name]; ok {
		r, b := ic(e, fv, args, cc)
		if _, nh := r.(notHandled); !nh {
			e.noteStub(name)
			return r, true, b
		}
	}
	if strings.HasPrefix(name, "(*sync/atomic.Pointer[") {
		if i := strings.LastIndex(name, ")."); i >= 0 {
			mname := name[i+2:]
			if j := strings.Index(mname, "["); j >= 0 {
				mname = mname[:j]
			}
			if ic, ok := atomicPointerMethods[mname]; ok {
				r, b := ic(e, fv, args, cc)
				e.noteStub("(*sync/atomic.Pointer[T])." + mname)
				return r, true, b
			}
		}
	}
	if r, ok := e.packageStub(fv.Fn, args, cc); ok {
		return r, true, false
	}
	if len(fv.Fn.Blocks) == 0 {
		e.unsupported("call to function without body and without model: " + name)
	}
	return nil, false, false
}

// stepCur steps e.cur once, translating blockSignal panics into "blocked".
func (e *Exec) stepCur() (ok bool) {
	defer func() {
		if r := recover(); r != nil {
			if _, isb := r.(blockSignal); isb {
				f := e.top()
				f.pc--
				e.cur.State = TBlocked
				ok = false
				return
			}
			if _, isp := r.(probeOK); isp && e.probing {
				f := e.top()
				f.pc--
				e.cur.State = TRunnable
				ok = true
				return
			}
			panic(r)
		}
	}()
	return e.step()
}

// ---- builtins ----

func (e *Exec) builtin(name string, args []Value, cc *ssa.CallCommon) Value {
	c := e.C
	switch name {
	case "len":
		switch x := args[0].(type) {
		case *SliceV:
			return c.BVConst(64, uint64(x.Len))
		case *BytesV:
			return e.bytesLen(x.Code)
		case *MapV:
			if x.M != nil {
				e.raceMap(x.M, false)
			}
			return c.BVConst(64, uint64(e.mapLen(x.M)))
		case *ChanV:
			if x.C == nil {
				return c.BVConst(64, 0)
			}
			return c.BVConst(64, uint64(len(x.C.Buf)))
		case *Term:
			return e.bytesLen(x) // string length
		case *ArrayV:
			return c.BVConst(64, uint64(len(x.E)))
		case *Pointer:
			if at, ok := cc.Args[0].Type().Underlying().(*types.Pointer).Elem().Underlying().(*types.Array); ok {
				return c.BVConst(64, uint64(at.Len()))
			}
		}
	case "cap":
		switch x := args[0].(type) {
		case *SliceV:
			return c.BVConst(64, uint64(x.Cap))
		case *ChanV:
			if x.C == nil {
				return c.BVConst(64, 0)
			}
			return c.BVConst(64, uint64(x.C.Cap))
		case *BytesV:
			return e.bytesLen(x.Code)
		}
	case "append":
		return e.appendOp(args[0], args[1], cc)
	case "copy":
		dst, ok1 := args[0].(*SliceV)
		src, ok2 := args[1].(*SliceV)
		if ok1 && ok2 {
			n := dst.Len
			if src.Len < n {
				n = src.Len
			}
			e.raceElems(src, 0, n, false)
			e.raceElems(dst, 0, n, true)
			tmp := make([]Value, n)
			for i := 0; i < n; i++ {
				tmp[i] = copyVal(src.Arr.Val.(*ArrayV).E[src.Off+i])
			}
			for i := 0; i < n; i++ {
				dst.Arr.Val.(*ArrayV).E[dst.Off+i] = tmp[i]
			}
			return c.BVConst(64, uint64(n))
		}
	case "clear":
		switch x := args[0].(type) {
		case *MapV:
			if x.M != nil {
				e.raceMap(x.M, true)
				x.M.Entries = nil
			}
			return nil
		case *SliceV:
			if x.Arr != nil {
				et := cc.Args[0].Type().Underlying().(*types.Slice).Elem()
				e.raceElems(x, 0, x.Len, true)
				for i := 0; i < x.Len; i++ {
					x.Arr.Val.(*ArrayV).E[x.Off+i] = e.zero(et)
				}
			}
			return nil
		}
	case "delete":
		m := args[0].(*MapV)
		if m.M != nil {
			e.raceMap(m.M, true)
		}
		e.mapDelete(m.M, args[1])
		return nil
	case "close":
		ch := args[0].(*ChanV)
		if ch.C == nil {
			e.fail("close-nil-chan", "close of nil channel")
		}
		if ch.C.Closed {
			e.fail("close-closed-chan", "close of closed channel")
		}
		ch.C.Closed = true
		return nil
	case "print", "println":
		return nil
	case "min", "max":
		if len(args) == 2 {
			a, b := args[0].(*Term), args[1].(*Term)
			var lt *Term
			if a.Sort.K == SFP {
				lt = c.FPCmp("fp.lt", a, b)
			} else if isSigned(cc.Args[0].Type()) {
				lt = c.SLT(a, b)
			} else {
				lt = c.ULT(a, b)
			}
			if name == "min" {
				return c.Ite(lt, a, b)
			}
			return c.Ite(lt, b, a)
		}
	case "recover":
		return &IfaceV{}
	case "ssa:wrapnilchk":
		p := args[0].(*Pointer)
		if p.IsNil() {
			e.fail("nil-deref", "value method called using nil pointer")
		}
		return p
	}
	e.unsupported("builtin " + name + fmt.Sprintf(" on %T", args[0]))
	return nil
}

// raceElems records reads or writes of n elements of a slice's backing array (the copies done by the
// append and copy builtins touch memory like any load or store).
func (e *Exec) raceElems(s *SliceV, from, n int, write bool) {
	if e.par == nil || e.rd == nil || s == nil || s.Arr == nil {
		return
	}
	for i := 0; i < n; i++ {
		e.raceAccess(&Pointer{Obj: s.Arr, Path: []int{s.Off + from + i}}, write)
	}
}

func (e *Exec) appendOp(a, b Value, cc *ssa.CallCommon) Value {
	// append([]byte, string...) and opaque bytes are not needed by the code in scope
	dst, ok := a.(*SliceV)
	if !ok {
		if ab, ok2 := a.(*BytesV); ok2 {
			if bs, ok3 := b.(*SliceV); ok3 && bs.Len == 0 {
				return ab
			}
		}
		e.unsupported(fmt.Sprintf("append to %T", a))
	}
	src, ok := b.(*SliceV)
	if !ok {
		if bb, ok2 := b.(*BytesV); ok2 && dst.Len == 0 {
			return bb
		}
		e.unsupported(fmt.Sprintf("append of %T", b))
	}
	if src.Len == 0 {
		return dst
	}
	et := cc.Args[0].Type().Underlying().(*types.Slice).Elem()
	n := dst.Len + src.Len
	e.raceElems(src, 0, src.Len, false)
	// snapshot source elements first (aliasing)
	tmp := make([]Value, src.Len)
	for i := 0; i < src.Len; i++ {
		tmp[i] = copyVal(src.Arr.Val.(*ArrayV).E[src.Off+i])
	}
	if dst.Arr != nil && n <= dst.Cap {
		arr := dst.Arr.Val.(*ArrayV)
		e.raceElems(dst, dst.Len, src.Len, true)
		for i := 0; i < src.Len; i++ {
			arr.E[dst.Off+dst.Len+i] = tmp[i]
		}
		return &SliceV{Arr: dst.Arr, Off: dst.Off, Len: n, Cap: dst.Cap}
	}
	// grow: Go's growth policy (double for small) — capacity is observable only via cap() and aliasing
	ncap := dst.Cap * 2
	if ncap < n {
		ncap = n
	}
	arr := &ArrayV{E: make([]Value, ncap)}
	e.raceElems(dst, 0, dst.Len, false)
	for i := 0; i < dst.Len; i++ {
		arr.E[i] = copyVal(dst.Arr.Val.(*ArrayV).E[dst.Off+i])
	}
	for i := 0; i < src.Len; i++ {
		arr.E[dst.Len+i] = tmp[i]
	}
	for i := n; i < ncap; i++ {
		arr.E[i] = e.zero(et)
	}
	obj := e.newObject(types.NewArray(et, int64(ncap)), arr, "append")
	return &SliceV{Arr: obj, Off: 0, Len: n, Cap: ncap}
}

// ---- gauges (prometheus model) ----

func (e *Exec) gaugeAdd(key string, delta int64) {
	cur, ok := e.gauges[key]
	if !ok {
		cur = e.C.BVConst(64, 0)
		e.gaugeKeys = append(e.gaugeKeys, key)
		sort.Strings(e.gaugeKeys)
	}
	e.gauges[key] = e.C.BVAdd(cur, e.C.BVConst(64, uint64(delta)))
}
