package sym

import (
	"fmt"
	"os"
	"path/filepath"
	"strings"

	"golang.org/x/tools/go/packages"
	"golang.org/x/tools/go/ssa"
	"golang.org/x/tools/go/ssa/ssautil"
)

// LoadConfig describes what to load: the repository and the harness overlay.
type LoadConfig struct {
	Repo       string   // /repo
	HarnessDir string   // /verif/harness: <pkgdir>/zz_verif_*.go mapped into Repo/<pkgdir>/
	Patterns   []string // packages to load
	Tags       string
}

// Overlay builds the go/packages overlay map (virtual path -> content) from HarnessDir.
func Overlay(cfg *LoadConfig) (map[string][]byte, error) {
	ov := map[string][]byte{}
	err := filepath.Walk(cfg.HarnessDir, func(path string, info os.FileInfo, err error) error {
		if err != nil {
			return err
		}
		if info.IsDir() || !strings.HasSuffix(path, ".go") {
			return nil
		}
		rel, _ := filepath.Rel(cfg.HarnessDir, path)
		b, err := os.ReadFile(path)
		if err != nil {
			return err
		}
		ov[filepath.Join(cfg.Repo, rel)] = b
		return nil
	})
	return ov, err
}

func Load(cfg *LoadConfig) (*Program, map[string]*ssa.Package, error) {
	ov, err := Overlay(cfg)
	if err != nil {
		return nil, nil, err
	}
	pc := &packages.Config{
		Mode:       packages.LoadAllSyntax,
		Dir:        cfg.Repo,
		Overlay:    ov,
		BuildFlags: []string{"-tags=" + cfg.Tags},
		Env:        append(os.Environ(), "GOFLAGS=-mod=readonly", "GOPROXY=off", "GOSUMDB=off", "GOTOOLCHAIN=local"),
	}
	pkgs, err := packages.Load(pc, cfg.Patterns...)
	if err != nil {
		return nil, nil, err
	}
	var errs []string
	packages.Visit(pkgs, nil, func(p *packages.Package) {
		for _, e := range p.Errors {
			if len(errs) < 20 {
				errs = append(errs, e.Error())
			}
		}
	})
	if len(errs) > 0 {
		return nil, nil, fmt.Errorf("package load errors:\n%s", strings.Join(errs, "\n"))
	}
	prog, spkgs := ssautil.AllPackages(pkgs, ssa.InstantiateGenerics)
	prog.Build()
	byPath := map[string]*ssa.Package{}
	for i, p := range pkgs {
		if spkgs[i] != nil {
			byPath[p.PkgPath] = spkgs[i]
		}
	}
	for _, sp := range prog.AllPackages() {
		if _, ok := byPath[sp.Pkg.Path()]; !ok {
			byPath[sp.Pkg.Path()] = sp
		}
	}
	p := &Program{SSA: prog, Fset: prog.Fset, NondetRange: map[string]bool{}, InitPkgs: map[string]bool{}}
	return p, byPath, nil
}
