package sym

import (
	"fmt"
	"strings"
)

// raceDetector implements happens-before (vector clocks) race detection over the engine's threads.
type raceDetector struct {
	clocks  map[*Thread][]int
	syncVC  map[interface{}][]int // release clocks of mutexes, channels, once, waitgroups
	cells   map[string]*cellHist
	reports map[string]bool
}

type accessRec struct {
	th    *Thread
	clock int // th's own component at access time
	write bool
	where string
}

type cellHist struct {
	lastWrite *accessRec
	reads     []*accessRec
}

func newRaceDetector() *raceDetector {
	return &raceDetector{clocks: map[*Thread][]int{}, syncVC: map[interface{}][]int{}, cells: map[string]*cellHist{}, reports: map[string]bool{}}
}

func (r *raceDetector) vc(t *Thread) []int {
	v, ok := r.clocks[t]
	if !ok {
		v = make([]int, t.ID+1)
		v[t.ID] = 1
		r.clocks[t] = v
	}
	if len(v) <= t.ID {
		nv := make([]int, t.ID+1)
		copy(nv, v)
		v = nv
		r.clocks[t] = v
	}
	return v
}

func joinVC(a, b []int) []int {
	if len(b) > len(a) {
		na := make([]int, len(b))
		copy(na, a)
		a = na
	}
	for i, x := range b {
		if x > a[i] {
			a[i] = x
		}
	}
	return a
}

func (r *raceDetector) tick(t *Thread) {
	v := r.vc(t)
	v[t.ID]++
}

func (r *raceDetector) spawn(parent, child *Thread) {
	if parent == nil {
		return
	}
	pv := r.vc(parent)
	cv := r.vc(child)
	r.clocks[child] = joinVC(cv, pv)
	r.vc(child)[child.ID]++
	r.tick(parent)
}

func (r *raceDetector) join(parent, child *Thread) {
	r.clocks[parent] = joinVC(r.vc(parent), r.vc(child))
	r.tick(parent)
}

func (r *raceDetector) publishPtr(t *Thread, key interface{}) {
	r.syncVC[key] = joinVC(append([]int{}, r.syncVC[key]...), r.vc(t))
	r.tick(t)
}
func (r *raceDetector) observePtr(t *Thread, key interface{}) {
	if v, ok := r.syncVC[key]; ok {
		r.clocks[t] = joinVC(r.vc(t), v)
	}
}
func (r *raceDetector) publish(t *Thread, key string) { r.publishPtr(t, key) }
func (r *raceDetector) observe(t *Thread, key string) { r.observePtr(t, key) }

func (r *raceDetector) acquire(t *Thread, m *muState, write bool) { r.observePtr(t, m) }
func (r *raceDetector) release(t *Thread, m *muState, write bool) { r.publishPtr(t, m) }
func (r *raceDetector) chanSend(t *Thread, c *ChanObj)            { r.publishPtr(t, c) }
func (r *raceDetector) chanRecv(t *Thread, c *ChanObj)            { r.observePtr(t, c) }

func (r *raceDetector) hb(a *accessRec, t *Thread) bool {
	// a happens-before t's current point iff t's clock has seen a's tick
	v := r.vc(t)
	return a.th == t || (a.th.ID < len(v) && v[a.th.ID] >= a.clock)
}

func (r *raceDetector) check(e *Exec, key string, write bool, desc string) {
	t := e.cur
	if t == nil {
		return
	}
	h := r.cells[key]
	if h == nil {
		h = &cellHist{}
		r.cells[key] = h
	}
	me := &accessRec{th: t, clock: r.vc(t)[t.ID], write: write, where: e.where()}
	report := func(o *accessRec) {
		k := key + "|" + o.where + "|" + me.where
		if r.reports[k] {
			return
		}
		r.reports[k] = true
		e.raceFound(desc, o, me)
	}
	if h.lastWrite != nil && !r.hb(h.lastWrite, t) {
		report(h.lastWrite)
	}
	if write {
		for _, rd := range h.reads {
			if !r.hb(rd, t) {
				report(rd)
			}
		}
		h.lastWrite = me
		h.reads = nil
	} else {
		h.reads = append(h.reads, me)
	}
}

func (r *raceDetector) access(e *Exec, p *Pointer, write bool) {
	if p.IsNil() {
		return
	}
	// thread-local objects (never escaped) would need escape info; we key by object+path and rely on HB
	key := fmt.Sprintf("o%d%v", p.Obj.ID, p.Path)
	r.check(e, key, write, "memory cell of "+p.Obj.Note)
}

func (r *raceDetector) mapAccess(e *Exec, m *MapObj, write bool) {
	r.check(e, fmt.Sprintf("m%d", m.ID), write, "map "+m.Typ.String())
}

func (e *Exec) raceFound(desc string, a, b *accessRec) {
	kind := func(w bool) string {
		if w {
			return "write"
		}
		return "read"
	}
	msg := fmt.Sprintf("data race on %s: %s by thread %d at %s vs %s by thread %d at %s", desc, kind(a.write), a.th.ID, a.where, kind(b.write), b.th.ID, b.where)
	if e.S.Check() == SatRes {
		ka, kb := topLoc(a.where), topLoc(b.where)
		if kb < ka {
			ka, kb = kb, ka
		}
		e.recordViolation("race", "race", msg, []string{ka, kb})
	}
}

func topLoc(where string) string {
	if i := strings.Index(where, " < "); i >= 0 {
		return where[:i]
	}
	return where
}
