package sym

import (
	"fmt"
	"go/types"
	"strings"

	"golang.org/x/tools/go/ssa"
)

// wall word of the engine's instants: monotonic flag set, wall-clock seconds (since 1885) of an instant in autumn
// 2026, so that real time.Time code comparing an engine instant with a client-supplied wall time (1970-based
// protobuf timestamps) sees the server's clock where a real server's would be
const hasMonotonic = uint64(1)<<63 | uint64(4471000000)<<30

func (e *Exec) timeStruct(t types.Type, wall, ext *Term) *StructV {
	v := e.zero(t).(*StructV)
	v.F[0] = wall
	v.F[1] = ext
	return v
}

// now returns a fresh monotonic instant >= every earlier one (in nanoseconds, int64).
func (e *Exec) now() *Term {
	c := e.C
	if step, ok := e.ext["clock.step"].(uint64); ok {
		// concrete clock requested by the harness (verifnd.ConcreteClock): instants advance by a fixed step
		cur, _ := e.ext["clock.cur"].(uint64)
		cur += step
		e.ext["clock.cur"] = cur
		e.clock = c.BVConst(64, cur)
		return e.clock
	}
	e.ndSeq++
	t := c.Var(fmt.Sprintf("clk!%d", e.ndSeq), BV(64))
	e.ND = append(e.ND, NDEntry{Kind: "clock", Term: t})
	e.S.Declare(t)
	lo := c.BVConst(64, 0)
	if e.clock != nil {
		lo = e.clock
	}
	e.AssumeBenign(c.SLE(lo, t))
	e.AssumeBenign(c.SLT(t, c.BVConst(64, 1<<61)))
	e.clock = t
	return t
}

func init() {
	reg := func(name string, f interceptFn) { intercepts[name] = f }

	reg("time.Now", func(e *Exec, fv *FuncV, args []Value, cc *ssa.CallCommon) (Value, bool) {
		return e.timeStruct(fv.Fn.Signature.Results().At(0).Type(), e.C.BVConst(64, hasMonotonic), e.now()), false
	})
	reg("time.Since", func(e *Exec, fv *FuncV, args []Value, cc *ssa.CallCommon) (Value, bool) {
		t := args[0].(*StructV)
		if w := t.F[0].(*Term); !(w.Const && w.U == hasMonotonic) {
			return notHandled{}, false // a wall-clock time (e.g. a client timestamp): the real Now().Sub(t)
		}
		n := e.now()
		return e.C.BVSub(n, t.F[1].(*Term)), false
	})
	reg("(time.Time).UnixNano", func(e *Exec, fv *FuncV, args []Value, cc *ssa.CallCommon) (Value, bool) {
		// wall-clock nanoseconds of an instant: an arbitrary int64 (the monotonic model carries no wall reading)
		t := args[0].(*StructV)
		ext := t.F[1].(*Term)
		wall := t.F[0].(*Term)
		if !(wall.Const && wall.U == hasMonotonic) {
			// not one of the engine's monotonic instants (e.g. a wall-clock time from time.Unix): execute the real method
			return notHandled{}, false
		}
		return e.C.App("unixnano!", BV(64), ext), false
	})
	reg("time.Until", func(e *Exec, fv *FuncV, args []Value, cc *ssa.CallCommon) (Value, bool) {
		t := args[0].(*StructV)
		n := e.now()
		return e.C.BVSub(t.F[1].(*Term), n), false
	})
	reg("time.runtimeNano", func(e *Exec, fv *FuncV, args []Value, cc *ssa.CallCommon) (Value, bool) {
		return e.now(), false
	})
	reg("time.Sleep", func(e *Exec, fv *FuncV, args []Value, cc *ssa.CallCommon) (Value, bool) {
		return nil, false
	})
	// time.After / time.Tick: the channel of a timer / ticker that only the harness can fire
	chanOf := func(e *Exec, v Value) Value {
		st := v.(*Pointer).Obj.Val.(*StructV)
		for _, f := range st.F {
			if ch, ok := f.(*ChanV); ok {
				return ch
			}
		}
		e.unsupported("timer without channel")
		return nil
	}
	timerFn := func(e *Exec, name string) *FuncV {
		for _, pk := range e.P.SSA.AllPackages() {
			if pk.Pkg.Path() == "time" {
				return &FuncV{Fn: pk.Func(name)}
			}
		}
		e.unsupported("package time not loaded")
		return nil
	}
	reg("time.After", func(e *Exec, fv *FuncV, args []Value, cc *ssa.CallCommon) (Value, bool) {
		return chanOf(e, e.newTicker(timerFn(e, "NewTimer"), args[0].(*Term), true)), false
	})
	reg("time.Tick", func(e *Exec, fv *FuncV, args []Value, cc *ssa.CallCommon) (Value, bool) {
		return chanOf(e, e.newTicker(timerFn(e, "NewTicker"), args[0].(*Term), false)), false
	})
	reg("time.AfterFunc", func(e *Exec, fv *FuncV, args []Value, cc *ssa.CallCommon) (Value, bool) {
		// the function runs only if the harness fires the timer: firing AfterFunc timers is not modelled, so the
		// callback never runs (stated whenever this stub is reached)
		return e.newTicker(timerFn(e, "NewTimer"), args[0].(*Term), true), false
	})
	reg("time.NewTicker", func(e *Exec, fv *FuncV, args []Value, cc *ssa.CallCommon) (Value, bool) {
		return e.newTicker(fv, args[0].(*Term), false), false
	})
	reg("time.NewTimer", func(e *Exec, fv *FuncV, args []Value, cc *ssa.CallCommon) (Value, bool) {
		return e.newTicker(fv, args[0].(*Term), true), false
	})
	stop := func(e *Exec, fv *FuncV, args []Value, cc *ssa.CallCommon) (Value, bool) {
		p := args[0].(*Pointer)
		if p.IsNil() {
			e.fail("nil-deref", "Stop on nil ticker/timer")
		}
		tk := e.tickerOf(p.Obj)
		was := tk.armed && !tk.stopped
		tk.stopped = true
		tk.armed = false
		tk.ch.Buf = nil // Go 1.23: no stale tick is received after Stop
		if tk.isTimer {
			return e.C.Bool(was), false
		}
		return nil, false
	}
	reg("(*time.Ticker).Stop", stop)
	reg("(*time.Timer).Stop", stop)
	reg("(*time.Timer).Reset", func(e *Exec, fv *FuncV, args []Value, cc *ssa.CallCommon) (Value, bool) {
		p := args[0].(*Pointer)
		tk := e.tickerOf(p.Obj)
		was := tk.armed && !tk.stopped
		tk.stopped = false
		tk.armed = true
		tk.ch.Buf = nil // Go 1.23: no stale tick is received after Reset
		tk.period = args[1].(*Term)
		e.fireIfNotPositive(tk)
		return e.C.Bool(was), false
	})
	reg("(*time.Ticker).Reset", func(e *Exec, fv *FuncV, args []Value, cc *ssa.CallCommon) (Value, bool) {
		p := args[0].(*Pointer)
		tk := e.tickerOf(p.Obj)
		tk.stopped = false
		tk.period = args[1].(*Term)
		return nil, false
	})

	// --- math ---
	fp1 := func(op string) interceptFn {
		return func(e *Exec, fv *FuncV, args []Value, cc *ssa.CallCommon) (Value, bool) {
			return e.C.FPUn(op, args[0].(*Term)), false
		}
	}
	reg("math.Floor", fp1("fp.floor"))
	reg("math.Ceil", fp1("fp.ceil"))
	reg("math.Abs", fp1("fp.abs"))
	reg("math.Sqrt", fp1("fp.sqrt"))
	reg("math.Round", fp1("fp.round"))
	reg("math.Trunc", fp1("fp.trunc"))
	reg("math.IsNaN", fp1("fp.isNaN"))
	reg("math.IsInf", func(e *Exec, fv *FuncV, args []Value, cc *ssa.CallCommon) (Value, bool) {
		c := e.C
		x := args[0].(*Term)
		sign := args[1].(*Term)
		inf := c.FPUn("fp.isInfinite", x)
		pos := c.FPCmp("fp.gt", x, c.FPConst64(0))
		if sign.Const {
			s := sext(sign.U, 64)
			switch {
			case s > 0:
				return c.And(inf, pos), false
			case s < 0:
				return c.And(inf, c.Not(pos)), false
			}
			return inf, false
		}
		e.unsupported("math.IsInf with symbolic sign")
		return nil, false
	})
	reg("math.Inf", func(e *Exec, fv *FuncV, args []Value, cc *ssa.CallCommon) (Value, bool) {
		sign := args[0].(*Term)
		if !sign.Const {
			e.unsupported("math.Inf symbolic sign")
		}
		if sext(sign.U, 64) >= 0 {
			return e.C.mk(&Term{Op: "const", Sort: FP(64), Const: true, U: 0x7FF0000000000000}), false
		}
		return e.C.mk(&Term{Op: "const", Sort: FP(64), Const: true, U: 0xFFF0000000000000}), false
	})
	minmax := func(isMin bool) interceptFn {
		return func(e *Exec, fv *FuncV, args []Value, cc *ssa.CallCommon) (Value, bool) {
			c := e.C
			x, y := args[0].(*Term), args[1].(*Term)
			// Go: Min(x, NaN) = NaN; Min(-0, 0) = -0; Inf handling follows from ordering
			nan := c.Or(c.FPUn("fp.isNaN", x), c.FPUn("fp.isNaN", y))
			nanv := c.mk(&Term{Op: "const", Sort: FP(64), Const: true, U: 0x7FF8000000000001})
			var pick *Term
			if isMin {
				lt := c.FPCmp("fp.lt", x, y)
				eq := c.FPCmp("fp.eq", x, y)
				// on equality (±0) prefer the negative-signed one
				xneg := c.mk(&Term{Op: "fp.isNegative", Sort: BoolSort, Args: []*Term{x}})
				pick = c.Ite(lt, x, c.Ite(eq, c.Ite(xneg, x, y), y))
			} else {
				gt := c.FPCmp("fp.gt", x, y)
				eq := c.FPCmp("fp.eq", x, y)
				xneg := c.mk(&Term{Op: "fp.isNegative", Sort: BoolSort, Args: []*Term{x}})
				pick = c.Ite(gt, x, c.Ite(eq, c.Ite(xneg, y, x), y))
			}
			if x.Const && y.Const {
				// fold via Go semantics
				fx, fy := fpVal(x), fpVal(y)
				if isMin {
					return c.FPConst64(goMin(fx, fy)), false
				}
				return c.FPConst64(goMax(fx, fy)), false
			}
			return c.Ite(nan, nanv, pick), false
		}
	}
	reg("math.Min", minmax(true))
	reg("math.Max", minmax(false))
	reg("math.Float32frombits", func(e *Exec, fv *FuncV, args []Value, cc *ssa.CallCommon) (Value, bool) {
		return e.C.FPFromBits(args[0].(*Term)), false
	})
	reg("math.Float64frombits", func(e *Exec, fv *FuncV, args []Value, cc *ssa.CallCommon) (Value, bool) {
		return e.C.FPFromBits(args[0].(*Term)), false
	})

	// --- hagall-common websocket: message envelope ---
	reg("github.com/aukilabs/hagall-common/websocket.MsgFromProto", func(e *Exec, fv *FuncV, args []Value, cc *ssa.CallCommon) (Value, bool) {
		return e.msgFromProto(fv, args[0]), false
	})
	reg("(github.com/aukilabs/hagall-common/websocket.Msg).DataTo", func(e *Exec, fv *FuncV, args []Value, cc *ssa.CallCommon) (Value, bool) {
		return e.msgDataTo(args[0].(*StructV), args[1]), false
	})
	reg("(github.com/aukilabs/hagall-common/websocket.Msg).TypeString", func(e *Exec, fv *FuncV, args []Value, cc *ssa.CallCommon) (Value, bool) {
		return e.C.Str("msgtype"), false
	})
	reg("google.golang.org/protobuf/proto.Marshal", func(e *Exec, fv *FuncV, args []Value, cc *ssa.CallCommon) (Value, bool) {
		iv := args[0].(*IfaceV)
		var ts []*Term
		e.flatten(iv.Val, &ts, 0)
		code := e.C.App("marshal!"+shortType(iv.Typ), IntSort, ts...)
		// remember the message so that proto.Unmarshal of exactly these bytes can restore it
		reg, _ := e.ext["marshalled"].(map[*Term]*protoBody)
		if reg == nil {
			reg = map[*Term]*protoBody{}
			e.ext["marshalled"] = reg
		}
		if p, ok := iv.Val.(*Pointer); ok && !p.IsNil() {
			reg[code] = &protoBody{typ: iv.Typ, snap: e.snapshot(e.peek(p), 0)}
		}
		return TupleV{&BytesV{Code: code}, &IfaceV{}}, false
	})
	reg("google.golang.org/protobuf/proto.Unmarshal", func(e *Exec, fv *FuncV, args []Value, cc *ssa.CallCommon) (Value, bool) {
		b, ok := args[0].(*BytesV)
		regm, _ := e.ext["marshalled"].(map[*Term]*protoBody)
		if !ok || regm == nil || regm[b.Code] == nil {
			e.unsupported("proto.Unmarshal of bytes that were not produced by proto.Marshal on this path")
		}
		body := regm[b.Code]
		div := args[1].(*IfaceV)
		if !types.Identical(div.Typ, body.typ) {
			e.unsupported("proto.Unmarshal into a different message type")
		}
		dp := div.Val.(*Pointer)
		e.store(dp, e.normalise(e.snapshot(body.snap, 0), div.Typ.Underlying().(*types.Pointer).Elem()))
		return &IfaceV{}, false
	})

	// --- go-ethereum crypto (uninterpreted) ---
	reg("github.com/ethereum/go-ethereum/crypto.Keccak256Hash", func(e *Exec, fv *FuncV, args []Value, cc *ssa.CallCommon) (Value, bool) {
		sl := args[0].(*SliceV) // variadic [][]byte
		if sl.Len != 1 {
			e.unsupported("Keccak256Hash with != 1 chunk")
		}
		code := e.bytesCode(sl.Arr.Val.(*ArrayV).E[sl.Off])
		h := e.C.App("keccak!", IntSort, code)
		// a digest is 32 bytes long (hence non-empty)
		e.Assume(e.C.Eq(e.bytesLen(h), e.C.BVConst(64, 32)))
		e.Assume(e.C.mk(&Term{Op: ">", Sort: BoolSort, Args: []*Term{h, e.C.IntConst(0)}}))
		return &OpaqueV{Tag: "hash", Data: h}, false
	})
	reg("(github.com/ethereum/go-ethereum/common.Hash).Bytes", func(e *Exec, fv *FuncV, args []Value, cc *ssa.CallCommon) (Value, bool) {
		h := args[0].(*OpaqueV)
		return &BytesV{Code: h.Data.(*Term)}, false
	})
	reg("github.com/ethereum/go-ethereum/crypto.Sign", func(e *Exec, fv *FuncV, args []Value, cc *ssa.CallCommon) (Value, bool) {
		h := e.bytesCode(args[0])
		keyID := e.C.IntConst(0)
		if p, ok := args[1].(*Pointer); ok && !p.IsNil() {
			keyID = e.C.IntConst(int64(p.Obj.ID))
		}
		sig := e.C.App("sign!", IntSort, h, keyID)
		// signing a 32-byte digest with a valid key does not fail; a nil key or a digest of another length does
		p, _ := args[1].(*Pointer)
		okLen := e.C.Eq(e.bytesLen(h), e.C.BVConst(64, 32))
		if p != nil && !p.IsNil() && e.Branch(okLen) {
			e.Assume(e.C.mk(&Term{Op: ">", Sort: BoolSort, Args: []*Term{sig, e.C.IntConst(0)}}))
			return TupleV{&BytesV{Code: sig}, &IfaceV{}}, false
		}
		return TupleV{&SliceV{}, &IfaceV{Typ: errType(e), Val: &OpaqueV{Tag: "err:sign failed"}}}, false
	})
	reg("github.com/ethereum/go-ethereum/crypto.Ecrecover", func(e *Exec, fv *FuncV, args []Value, cc *ssa.CallCommon) (Value, bool) {
		h, s := e.bytesCode(args[0]), e.bytesCode(args[1])
		okv := e.C.App("ecrecover_ok!", BoolSort, h, s)
		if s.Op == "uf" && strings.HasPrefix(s.Name, "sign!") {
			e.Assume(e.C.Implies(e.C.Eq(s.Args[0], h), okv))
		}
		if e.Branch(okv) {
			return TupleV{&BytesV{Code: e.C.App("ecrecover!", IntSort, h, s)}, &IfaceV{}}, false
		}
		return TupleV{&SliceV{}, &IfaceV{Typ: errType(e), Val: &OpaqueV{Tag: "err:invalid signature"}}}, false
	})
	reg("github.com/ethereum/go-ethereum/crypto.GenerateKey", func(e *Exec, fv *FuncV, args []Value, cc *ssa.CallCommon) (Value, bool) {
		pt := fv.Fn.Signature.Results().At(0).Type().(*types.Pointer)
		obj := e.newObject(pt.Elem(), e.zero(pt.Elem()), "private key")
		return TupleV{&Pointer{Obj: obj}, &IfaceV{}}, false
	})
	reg("github.com/ethereum/go-ethereum/common.BytesToHash", func(e *Exec, fv *FuncV, args []Value, cc *ssa.CallCommon) (Value, bool) {
		// SetBytes semantics: 32 bytes -> identity; longer -> the rightmost 32 bytes; shorter -> left-padded with zeros
		code := e.bytesCode(args[0])
		c := e.C
		ln := e.bytesLen(code)
		is32 := c.Eq(ln, c.BVConst(64, 32))
		longer := c.SLT(c.BVConst(64, 32), ln)
		th := c.Ite(is32, code, c.Ite(longer, c.App("suffix32!", IntSort, code), c.App("leftpad32!", IntSort, code)))
		return &OpaqueV{Tag: "hash", Data: th}, false
	})
	reg("github.com/aukilabs/hagall-common/ncsclient.NewNCSClient", func(e *Exec, fv *FuncV, args []Value, cc *ssa.CallCommon) (Value, bool) {
		v := e.zero(fv.Fn.Signature.Results().At(0).Type()).(*StructV)
		v.F[0] = args[0]
		return v, false
	})
	reg("(*github.com/aukilabs/hagall-common/ncsclient.NCSClient).PostReceipt", func(e *Exec, fv *FuncV, args []Value, cc *ssa.CallCommon) (Value, bool) {
		// the credit service: records the request; whether it then answers, fails or keeps the client waiting is the
		// harness's plan (verifnd.NCSFail / NCSHold / NCSRelease), followed by the native recording endpoint too
		posts, _ := e.ext["ncs.posts"].([]Value)
		if ht, _ := e.ext["ncs.heldthread"].(*Thread); ht == e.cur {
			// this thread's request was recorded when it arrived and is being held
			if rel, _ := e.ext["ncs.released"].(bool); !rel {
				e.cur.Wait = "credit service holds the request"
				return nil, true
			}
			delete(e.ext, "ncs.heldthread")
			return &IfaceV{}, false
		}
		if holds, _ := e.ext["ncs.hold"].(map[int]bool); holds[len(posts)] {
			if rel, _ := e.ext["ncs.released"].(bool); !rel {
				if e.probing {
					panic(probeOK{}) // arriving is possible; the request then blocks
				}
				e.ext["ncs.posts"] = append(posts, copyVal(args[2]))
				e.ext["ncs.heldthread"] = e.cur
				e.cur.Wait = "credit service holds the request"
				return nil, true
			}
		}
		e.ext["ncs.posts"] = append(posts, copyVal(args[2]))
		// whether the n-th request fails (after the service has received it) is the harness's choice
		// (verifnd.NCSFail), so that the native recording endpoint can follow the same plan
		n := len(posts)
		if fails, _ := e.ext["ncs.fail"].(map[int]bool); fails[n] {
			return &IfaceV{Typ: errType(e), Val: &OpaqueV{Tag: "err:credit service unreachable"}}, false
		}
		return &IfaceV{}, false
	})
	reg("github.com/ethereum/go-ethereum/common/hexutil.Encode", func(e *Exec, fv *FuncV, args []Value, cc *ssa.CallCommon) (Value, bool) {
		return e.C.App("hex!", IntSort, e.bytesCode(args[0])), false
	})
}

func goMin(x, y float64) float64 {
	if x != x || y != y {
		return x + y
	}
	if x == 0 && y == 0 {
		if 1/x < 0 {
			return x
		}
		return y
	}
	if x < y {
		return x
	}
	return y
}
func goMax(x, y float64) float64 {
	if x != x || y != y {
		return x + y
	}
	if x == 0 && y == 0 {
		if 1/x < 0 {
			return y
		}
		return x
	}
	if x > y {
		return x
	}
	return y
}

func shortType(t types.Type) string {
	s := t.String()
	if i := strings.LastIndex(s, "."); i >= 0 {
		s = s[i+1:]
	}
	return strings.Trim(s, "*")
}

// flatten collects the scalar terms reachable from a value (through pointers and slices) in a fixed order.
func (e *Exec) flatten(v Value, out *[]*Term, depth int) {
	if depth > 6 {
		return
	}
	switch x := v.(type) {
	case *Term:
		*out = append(*out, x)
	case *BytesV:
		*out = append(*out, x.Code)
	case *StructV:
		for _, f := range x.F {
			e.flatten(f, out, depth+1)
		}
	case *ArrayV:
		for _, f := range x.E {
			e.flatten(f, out, depth+1)
		}
	case *Pointer:
		if x.IsNil() {
			*out = append(*out, e.C.IntConst(-1))
		} else {
			e.flatten(e.peek(x), out, depth+1)
		}
	case *SliceV:
		*out = append(*out, e.C.IntConst(int64(x.Len)))
		for i := 0; i < x.Len; i++ {
			e.flatten(x.Arr.Val.(*ArrayV).E[x.Off+i], out, depth+1)
		}
	}
}

// ---- tickers / timers ----

func (e *Exec) newTicker(fv *FuncV, period *Term, isTimer bool) Value {
	pt := fv.Fn.Signature.Results().At(0).Type().(*types.Pointer)
	st := e.zero(pt.Elem()).(*StructV)
	e.nextObj++
	s := pt.Elem().Underlying().(*types.Struct)
	var elem types.Type
	for i := 0; i < s.NumFields(); i++ {
		if s.Field(i).Name() == "C" {
			elem = s.Field(i).Type().Underlying().(*types.Chan).Elem()
		}
	}
	ch := &ChanObj{ID: e.nextObj, Cap: 1, Elem: elem, Tag: "ticker"}
	for i := 0; i < s.NumFields(); i++ {
		if s.Field(i).Name() == "C" {
			st.F[i] = &ChanV{C: ch}
		}
	}
	obj := e.newObject(pt.Elem(), st, "ticker")
	tk := &tickerObj{ch: ch, period: period, isTimer: isTimer, armed: true, obj: obj}
	e.tickers = append(e.tickers, tk)
	e.fireIfNotPositive(tk)
	return &Pointer{Obj: obj}
}

// fireIfNotPositive: a timer armed with a duration that is concretely zero or negative fires at once.
func (e *Exec) fireIfNotPositive(t *tickerObj) {
	if !t.isTimer || !t.period.Const || int64(t.period.U) > 0 || !t.armed || t.stopped {
		return
	}
	if len(t.ch.Buf) < t.ch.Cap {
		t.ch.Buf = append(t.ch.Buf, e.timeStruct(t.ch.Elem, e.C.BVConst(64, hasMonotonic), e.now()))
	}
	t.armed = false
}

func (e *Exec) tickerOf(o *Object) *tickerObj {
	for _, t := range e.tickers {
		if t.obj == o {
			return t
		}
	}
	e.unsupported("operation on unknown ticker/timer")
	return nil
}

// fireTickers delivers one tick on every live ticker/timer whose period equals d (0 = all).
func (e *Exec) fireTickers(d *Term) int {
	n := 0
	for _, t := range e.tickers {
		if t.stopped || !t.armed {
			continue
		}
		if d != nil && !(t.period.Const && d.Const && t.period.U == d.U) {
			continue
		}
		if len(t.ch.Buf) < t.ch.Cap {
			tt := e.timeStruct(t.ch.Elem, e.C.BVConst(64, hasMonotonic), e.now())
			t.ch.Buf = append(t.ch.Buf, tt)
			n++
		}
		if t.isTimer {
			t.armed = false
		}
	}
	return n
}

// ---- protobuf envelope model ----

type protoBody struct {
	typ     types.Type // pointer-to-message type of the original
	snap    Value      // deep snapshot (StructV)
	garbage bool
}

func (e *Exec) snapshot(v Value, depth int) Value {
	if depth > 8 {
		e.unsupported("protobuf snapshot too deep")
	}
	switch x := v.(type) {
	case *Term, *BytesV, *OpaqueV, nil:
		return v
	case *StructV:
		n := &StructV{F: make([]Value, len(x.F))}
		for i, f := range x.F {
			n.F[i] = e.snapshot(f, depth+1)
		}
		return n
	case *ArrayV:
		n := &ArrayV{E: make([]Value, len(x.E))}
		for i, f := range x.E {
			n.E[i] = e.snapshot(f, depth+1)
		}
		return n
	case *Pointer:
		if x.IsNil() {
			return x
		}
		if len(x.Path) != 0 {
			e.unsupported("snapshot of interior pointer")
		}
		obj := e.newObject(x.Obj.Typ, e.snapshot(x.Obj.Val, depth+1), "snapshot")
		return &Pointer{Obj: obj}
	case *SliceV:
		if x.Arr == nil || x.Len == 0 {
			return &SliceV{}
		}
		arr := &ArrayV{E: make([]Value, x.Len)}
		for i := 0; i < x.Len; i++ {
			arr.E[i] = e.snapshot(x.Arr.Val.(*ArrayV).E[x.Off+i], depth+1)
		}
		obj := e.newObject(x.Arr.Typ, arr, "snapshot")
		return &SliceV{Arr: obj, Len: x.Len, Cap: x.Len}
	case *MapV, *IfaceV, *FuncV, *ChanV:
		return v // not part of wire content in the messages in scope
	}
	e.unsupported(fmt.Sprintf("snapshot of %T", v))
	return nil
}

func (e *Exec) msgFromProto(fv *FuncV, arg Value) Value {
	res := fv.Fn.Signature.Results()
	msgT := res.At(0).Type()
	zeroMsg := e.zero(msgT)
	iv := arg.(*IfaceV)
	mkErr := func(s string) Value {
		return TupleV{zeroMsg, &IfaceV{Typ: errType(e), Val: &OpaqueV{Tag: "err:" + s}}}
	}
	if iv.Typ == nil {
		e.fail("nil-deref", "MsgFromProto(nil)")
	}
	p, ok := iv.Val.(*Pointer)
	if !ok {
		return mkErr("protobuf message is not a struct")
	}
	if p.IsNil() {
		e.fail("nil-deref", "MsgFromProto on nil message pointer (reflect.Indirect of nil)")
	}
	pt, ok := iv.Typ.Underlying().(*types.Pointer)
	if !ok {
		return mkErr("protobuf message is not a struct")
	}
	st, ok := pt.Elem().Underlying().(*types.Struct)
	if !ok {
		return mkErr("protobuf message is not a struct")
	}
	sv := e.peek(p).(*StructV)
	var typeVal Value
	for i := 0; i < st.NumFields(); i++ {
		if st.Field(i).Name() == "Type" {
			ft := st.Field(i).Type()
			// must implement protoreflect.Enum (has Number method)
			ms := e.P.SSA.MethodSets.MethodSet(ft)
			has := false
			for j := 0; j < ms.Len(); j++ {
				if ms.At(j).Obj().Name() == "Number" {
					has = true
				}
			}
			if !has {
				return mkErr("protobuf message type is not a protobuf enum")
			}
			typeVal = &IfaceV{Typ: ft, Val: sv.F[i]}
		}
	}
	if typeVal == nil {
		e.fail("panic", "MsgFromProto: message without Type field (reflect: call of Value.Interface on zero Value)")
	}
	m := zeroMsg.(*StructV)
	ms := msgT.Underlying().(*types.Struct)
	for i := 0; i < ms.NumFields(); i++ {
		switch ms.Field(i).Name() {
		case "Type":
			m.F[i] = typeVal
		case "body":
			m.F[i] = &OpaqueV{Tag: "protobody", Data: &protoBody{typ: iv.Typ, snap: e.snapshot(sv, 0)}}
		case "Time":
			// Time: v.GetTimestamp().AsTime() = time.Unix(seconds, nanos).UTC(), built without forking: for nanos in
			// [0, 1e9) the wall word is nanos and the ext word seconds + the Unix-to-internal offset; for other
			// nanos (normalised by a division in the real code) both words are uninterpreted functions of the fields
			c := e.C
			wall, ext := c.BVConst(64, 0), c.BVConst(64, 62135596800)
			for j := 0; j < st.NumFields(); j++ {
				if st.Field(j).Name() != "Timestamp" {
					continue
				}
				tp, ok := sv.F[j].(*Pointer)
				if !ok || tp.IsNil() {
					continue
				}
				tsv, ok := e.peek(tp).(*StructV)
				tst, ok2 := tp.Obj.Typ.Underlying().(*types.Struct)
				if !ok || !ok2 {
					continue
				}
				var sec, nanos *Term
				for k := 0; k < tst.NumFields(); k++ {
					switch tst.Field(k).Name() {
					case "Seconds":
						sec, _ = tsv.F[k].(*Term)
					case "Nanos":
						nanos, _ = tsv.F[k].(*Term)
					}
				}
				if sec == nil || nanos == nil {
					continue
				}
				n64 := c.BVConv(nanos, 64, true)
				valid := c.And(c.SLE(c.BVConst(64, 0), n64), c.SLT(n64, c.BVConst(64, 1000000000)))
				uw := c.App("astime.wall!", BV(64), sec, n64)
				e.AssumeBenign(c.bvcmp("bvult", uw, c.BVConst(64, 1000000000)))
				wall = c.Ite(valid, n64, uw)
				ext = c.Ite(valid, c.BVAdd(sec, c.BVConst(64, 62135596800)), c.App("astime.ext!", BV(64), sec, n64))
			}
			m.F[i] = e.timeStruct(ms.Field(i).Type(), wall, ext)
		}
	}
	return TupleV{m, &IfaceV{}}
}

// msgDataTo copies the snapshot into *dst with proto3 normalisation.
func (e *Exec) msgDataTo(msg *StructV, dst Value) Value {
	var body *protoBody
	for _, f := range msg.F {
		if ov, ok := f.(*OpaqueV); ok && ov.Tag == "protobody" {
			body = ov.Data.(*protoBody)
		}
	}
	div := dst.(*IfaceV)
	dp := div.Val.(*Pointer)
	if dp.IsNil() {
		e.fail("nil-deref", "DataTo(nil)")
	}
	if body == nil {
		// empty body decodes to the zero message
		e.store(dp, e.zero(dp.Obj.Typ))
		return &IfaceV{}
	}
	if body.garbage {
		return &IfaceV{Typ: errType(e), Val: &OpaqueV{Tag: "err:proto: cannot parse invalid wire-format data"}}
	}
	dt := div.Typ.Underlying().(*types.Pointer).Elem()
	st := body.typ.Underlying().(*types.Pointer).Elem()
	if types.Identical(dt, st) {
		e.store(dp, e.normalise(e.snapshot(body.snap, 0), dt))
		return &IfaceV{}
	}
	// different message type: copy wire-compatible fields (same protobuf field number and Go type)
	ds := dt.Underlying().(*types.Struct)
	ss := st.Underlying().(*types.Struct)
	out := e.zero(dt).(*StructV)
	src := body.snap.(*StructV)
	for i := 0; i < ds.NumFields(); i++ {
		dn := protoFieldNum(ds.Tag(i))
		if dn == "" {
			continue
		}
		for j := 0; j < ss.NumFields(); j++ {
			if protoFieldNum(ss.Tag(j)) == dn {
				if types.Identical(ds.Field(i).Type(), ss.Field(j).Type()) || wireCompatible(ds.Field(i).Type(), ss.Field(j).Type()) {
					out.F[i] = e.normalise(e.snapshot(src.F[j], 0), ds.Field(i).Type())
				} else {
					e.unsupported(fmt.Sprintf("DataTo: field %s of %s decoded as different type in %s", ss.Field(j).Name(), st, dt))
				}
			}
		}
	}
	e.store(dp, out)
	return &IfaceV{}
}

func protoFieldNum(tag string) string {
	// protobuf:"varint,2,opt,name=..."
	i := strings.Index(tag, `protobuf:"`)
	if i < 0 {
		return ""
	}
	rest := tag[i+len(`protobuf:"`):]
	parts := strings.Split(rest, ",")
	if len(parts) < 2 {
		return ""
	}
	return parts[1]
}

// normalise applies proto3 round-trip normalisation: empty strings/bytes/slices become zero values.
func (e *Exec) normalise(v Value, t types.Type) Value {
	switch x := v.(type) {
	case *StructV:
		st, ok := t.Underlying().(*types.Struct)
		if !ok {
			return v
		}
		for i := range x.F {
			x.F[i] = e.normalise(x.F[i], st.Field(i).Type())
		}
		return x
	case *Pointer:
		if x.IsNil() {
			return x
		}
		if pt, ok := t.Underlying().(*types.Pointer); ok {
			x.Obj.Val = e.normalise(x.Obj.Val, pt.Elem())
		}
		return x
	case *SliceV:
		if x.Len == 0 {
			return &SliceV{}
		}
		if st, ok := t.Underlying().(*types.Slice); ok {
			arr := x.Arr.Val.(*ArrayV)
			for i := 0; i < x.Len; i++ {
				if ep, ok := arr.E[x.Off+i].(*Pointer); ok && ep.IsNil() {
					// a nil element of a repeated message field is encoded as an empty message
					if pt, ok := st.Elem().Underlying().(*types.Pointer); ok {
						arr.E[x.Off+i] = &Pointer{Obj: e.newObject(pt.Elem(), e.zero(pt.Elem()), "empty repeated element")}
					}
				}
				arr.E[x.Off+i] = e.normalise(arr.E[x.Off+i], st.Elem())
			}
		}
		return x
	}
	return v
}

// wireCompatible: two Go types that decode from the same protobuf wire value (enums of different packages, same-width ints).
func wireCompatible(a, b types.Type) bool {
	ab, ok1 := a.Underlying().(*types.Basic)
	bb, ok2 := b.Underlying().(*types.Basic)
	return ok1 && ok2 && ab.Kind() == bb.Kind()
}
