package sym

import (
	"fmt"
	"go/types"
	"strings"

	"golang.org/x/tools/go/ssa"
)

// Package strings (its bodies end in assembly helpers): on concrete arguments the real function is evaluated;
// with a symbolic argument the result is an uninterpreted function of the arguments (same arguments, same
// result; a counterexample that depends on it must still reproduce natively before it is reported).

func init() {
	type fn struct {
		res  Sort
		eval func(a []string) interface{}
	}
	b2 := func(f func(a, b string) bool) func([]string) interface{} {
		return func(a []string) interface{} { return f(a[0], a[1]) }
	}
	i2 := func(f func(a, b string) int) func([]string) interface{} {
		return func(a []string) interface{} { return f(a[0], a[1]) }
	}
	s1 := func(f func(a string) string) func([]string) interface{} {
		return func(a []string) interface{} { return f(a[0]) }
	}
	s2 := func(f func(a, b string) string) func([]string) interface{} {
		return func(a []string) interface{} { return f(a[0], a[1]) }
	}
	table := map[string]fn{
		"Contains":    {BoolSort, b2(strings.Contains)},
		"ContainsAny": {BoolSort, b2(strings.ContainsAny)},
		"HasPrefix":   {BoolSort, b2(strings.HasPrefix)},
		"HasSuffix":   {BoolSort, b2(strings.HasSuffix)},
		"EqualFold":   {BoolSort, b2(strings.EqualFold)},
		"Index":       {BV(64), i2(strings.Index)},
		"LastIndex":   {BV(64), i2(strings.LastIndex)},
		"Count":       {BV(64), i2(strings.Count)},
		"Compare":     {BV(64), i2(strings.Compare)},
		"ToLower":     {IntSort, s1(strings.ToLower)},
		"ToUpper":     {IntSort, s1(strings.ToUpper)},
		"TrimSpace":   {IntSort, s1(strings.TrimSpace)},
		"TrimPrefix":  {IntSort, s2(strings.TrimPrefix)},
		"TrimSuffix":  {IntSort, s2(strings.TrimSuffix)},
		"Trim":        {IntSort, s2(strings.Trim)},
		"TrimLeft":    {IntSort, s2(strings.TrimLeft)},
		"TrimRight":   {IntSort, s2(strings.TrimRight)},
		"ReplaceAll":  {IntSort, func(a []string) interface{} { return strings.ReplaceAll(a[0], a[1], a[2]) }},
	}
	for name, f := range table {
		name, f := name, f
		intercepts["strings."+name] = func(e *Exec, fv *FuncV, args []Value, cc *ssa.CallCommon) (Value, bool) {
			c := e.C
			var codes []*Term
			var strs []string
			concrete := true
			for _, a := range args {
				t, ok := a.(*Term)
				if !ok {
					return notHandled{}, false
				}
				codes = append(codes, t)
				s, ok := c.StrValue(t)
				concrete = concrete && ok
				strs = append(strs, s)
			}
			if concrete {
				switch r := f.eval(strs).(type) {
				case bool:
					return c.Bool(r), false
				case int:
					return c.BVConst(64, uint64(int64(r))), false
				case string:
					return c.Str(r), false
				}
			}
			return c.App("strings."+name+"!", f.res, codes...), false
		}
	}
	// Split / Fields / Join on concrete arguments only
	strSlice := func(e *Exec, parts []string) Value {
		if len(parts) == 0 {
			return &SliceV{}
		}
		arr := &ArrayV{E: make([]Value, len(parts))}
		for i, p := range parts {
			arr.E[i] = e.C.Str(p)
		}
		obj := e.newObject(types.NewArray(types.Typ[types.String], int64(len(parts))), arr, "strings result")
		return &SliceV{Arr: obj, Len: len(parts), Cap: len(parts)}
	}
	intercepts["strings.Split"] = func(e *Exec, fv *FuncV, args []Value, cc *ssa.CallCommon) (Value, bool) {
		a, ok1 := e.C.StrValue(args[0].(*Term))
		b, ok2 := e.C.StrValue(args[1].(*Term))
		if !ok1 || !ok2 {
			e.unsupported("strings.Split of a symbolic string")
		}
		return strSlice(e, strings.Split(a, b)), false
	}
	intercepts["strings.Fields"] = func(e *Exec, fv *FuncV, args []Value, cc *ssa.CallCommon) (Value, bool) {
		a, ok := e.C.StrValue(args[0].(*Term))
		if !ok {
			e.unsupported("strings.Fields of a symbolic string")
		}
		return strSlice(e, strings.Fields(a)), false
	}
	intercepts["strings.Join"] = func(e *Exec, fv *FuncV, args []Value, cc *ssa.CallCommon) (Value, bool) {
		sl, ok := args[0].(*SliceV)
		sep, ok2 := e.C.StrValue(args[1].(*Term))
		if !ok || !ok2 {
			return notHandled{}, false
		}
		var parts []string
		var codes []*Term
		concrete := true
		for i := 0; i < sl.Len; i++ {
			t := sl.Arr.Val.(*ArrayV).E[sl.Off+i].(*Term)
			codes = append(codes, t)
			s, ok := e.C.StrValue(t)
			concrete = concrete && ok
			parts = append(parts, s)
		}
		if concrete {
			return e.C.Str(strings.Join(parts, sep)), false
		}
		return e.C.App("strings.Join!"+sep, IntSort, codes...), false
	}
}

// strings.Builder (its body guards against copies through unsafe pointers): the content is a string term kept
// per receiver.
func init() {
	key := func(e *Exec, recv Value) string {
		p, ok := recv.(*Pointer)
		if !ok || p.IsNil() {
			e.fail("nil-deref", "strings.Builder method on a nil pointer")
		}
		return "strings.Builder:" + p.Obj.Note + ":" + itoa(p.Obj.ID) + pathKey(p.Path)
	}
	get := func(e *Exec, k string) *Term {
		if t, ok := e.ext[k].(*Term); ok {
			return t
		}
		return e.C.Str("")
	}
	cat := func(e *Exec, x, y *Term) *Term {
		sx, okx := e.C.StrValue(x)
		sy, oky := e.C.StrValue(y)
		if okx && oky {
			return e.C.Str(sx + sy)
		}
		return e.C.App("str.concat", IntSort, x, y)
	}
	reg := func(name string, f interceptFn) { intercepts["(*strings.Builder)."+name] = f }
	reg("WriteString", func(e *Exec, fv *FuncV, args []Value, cc *ssa.CallCommon) (Value, bool) {
		k := key(e, args[0])
		s := args[1].(*Term)
		e.ext[k] = cat(e, get(e, k), s)
		return TupleV{e.bytesLen(s), &IfaceV{}}, false
	})
	reg("WriteByte", func(e *Exec, fv *FuncV, args []Value, cc *ssa.CallCommon) (Value, bool) {
		k := key(e, args[0])
		b := args[1].(*Term)
		if !b.Const {
			e.unsupported("strings.Builder.WriteByte of a symbolic byte")
		}
		e.ext[k] = cat(e, get(e, k), e.C.Str(string([]byte{byte(b.U)})))
		return &IfaceV{}, false
	})
	reg("WriteRune", func(e *Exec, fv *FuncV, args []Value, cc *ssa.CallCommon) (Value, bool) {
		k := key(e, args[0])
		r := args[1].(*Term)
		if !r.Const {
			e.unsupported("strings.Builder.WriteRune of a symbolic rune")
		}
		s := string(rune(int32(r.U)))
		e.ext[k] = cat(e, get(e, k), e.C.Str(s))
		return TupleV{e.C.BVConst(64, uint64(len(s))), &IfaceV{}}, false
	})
	reg("String", func(e *Exec, fv *FuncV, args []Value, cc *ssa.CallCommon) (Value, bool) {
		return get(e, key(e, args[0])), false
	})
	reg("Len", func(e *Exec, fv *FuncV, args []Value, cc *ssa.CallCommon) (Value, bool) {
		return e.bytesLen(get(e, key(e, args[0]))), false
	})
	reg("Reset", func(e *Exec, fv *FuncV, args []Value, cc *ssa.CallCommon) (Value, bool) {
		delete(e.ext, key(e, args[0]))
		return nil, false
	})
	reg("Grow", func(e *Exec, fv *FuncV, args []Value, cc *ssa.CallCommon) (Value, bool) { return nil, false })
}

func itoa(n int) string { return fmt.Sprint(n) }

func pathKey(p []int) string { return fmt.Sprint(p) }
