package sym

import (
	"fmt"

	"golang.org/x/tools/go/ssa"
)

// sync/atomic: every operation is indivisible, a scheduling point inside Par (the native scheduler has the
// matching hook through internal/verifatomic) and a synchronisation edge for the race detector (Go's atomics
// are sequentially consistent); plain accesses to the same cell still race with them.

func (e *Exec) atomicCell(v Value, what string) *Pointer {
	p, ok := v.(*Pointer)
	if !ok || p.IsNil() {
		e.fail("nil-deref", "atomic "+what+" through a nil pointer")
	}
	e.schedPoint("atomic")
	if e.rd != nil && e.par != nil {
		key := fmt.Sprintf("atomic:o%d%v", p.Obj.ID, p.Path)
		e.rd.observe(e.cur, key)
		e.rd.publish(e.cur, key)
	}
	return p
}

func init() {
	reg := func(name string, f interceptFn) { intercepts["sync/atomic."+name] = f }
	for _, ty := range []string{"Int32", "Int64", "Uint32", "Uint64", "Uintptr"} {
		ty := ty
		reg("Add"+ty, func(e *Exec, fv *FuncV, args []Value, cc *ssa.CallCommon) (Value, bool) {
			p := e.atomicCell(args[0], "add")
			nv := e.C.BVAdd(e.load(p).(*Term), args[1].(*Term))
			e.store(p, nv)
			return nv, false
		})
		reg("Load"+ty, func(e *Exec, fv *FuncV, args []Value, cc *ssa.CallCommon) (Value, bool) {
			return e.load(e.atomicCell(args[0], "load")), false
		})
		reg("Store"+ty, func(e *Exec, fv *FuncV, args []Value, cc *ssa.CallCommon) (Value, bool) {
			e.store(e.atomicCell(args[0], "store"), args[1])
			return nil, false
		})
		reg("Swap"+ty, func(e *Exec, fv *FuncV, args []Value, cc *ssa.CallCommon) (Value, bool) {
			p := e.atomicCell(args[0], "swap")
			old := e.load(p)
			e.store(p, args[1])
			return old, false
		})
		reg("CompareAndSwap"+ty, func(e *Exec, fv *FuncV, args []Value, cc *ssa.CallCommon) (Value, bool) {
			p := e.atomicCell(args[0], "compare-and-swap")
			if e.Branch(e.C.Eq(e.load(p).(*Term), args[1].(*Term))) {
				e.store(p, args[2])
				return e.C.True, false
			}
			return e.C.False, false
		})
		for _, op := range []string{"And", "Or"} {
			op := op
			reg(op+ty, func(e *Exec, fv *FuncV, args []Value, cc *ssa.CallCommon) (Value, bool) {
				p := e.atomicCell(args[0], "bit operation")
				old := e.load(p).(*Term)
				bop := "bvand"
				if op == "Or" {
					bop = "bvor"
				}
				e.store(p, e.C.BVBin(bop, old, args[1].(*Term)))
				return old, false
			})
		}
	}
	// atomic.Value and atomic.Pointer[T] (their bodies go through unsafe.Pointer): one cell per receiver
	cellOf := func(e *Exec, recv Value, what string) string {
		p := e.atomicCell(recv, what)
		return fmt.Sprintf("atomic.cell:o%d%v", p.Obj.ID, p.Path)
	}
	loadCell := func(e *Exec, fv *FuncV, key string) Value {
		if v, ok := e.ext[key]; ok {
			return v.(Value)
		}
		return e.zero(fv.Fn.Signature.Results().At(0).Type())
	}
	boxed := func(name string, f interceptFn) {
		intercepts["(*sync/atomic.Value)."+name] = f
		atomicPointerMethods[name] = f
	}
	boxed("Load", func(e *Exec, fv *FuncV, args []Value, cc *ssa.CallCommon) (Value, bool) {
		return loadCell(e, fv, cellOf(e, args[0], "load")), false
	})
	boxed("Store", func(e *Exec, fv *FuncV, args []Value, cc *ssa.CallCommon) (Value, bool) {
		e.ext[cellOf(e, args[0], "store")] = args[1]
		return nil, false
	})
	boxed("Swap", func(e *Exec, fv *FuncV, args []Value, cc *ssa.CallCommon) (Value, bool) {
		key := cellOf(e, args[0], "swap")
		old := loadCell(e, fv, key)
		e.ext[key] = args[1]
		return old, false
	})
	boxed("CompareAndSwap", func(e *Exec, fv *FuncV, args []Value, cc *ssa.CallCommon) (Value, bool) {
		key := cellOf(e, args[0], "compare-and-swap")
		cur, ok := e.ext[key]
		if !ok {
			cur = e.zero(fv.Fn.Signature.Params().At(0).Type())
		}
		if e.Branch(e.equal(cur.(Value), args[1], fv.Fn.Signature.Params().At(0).Type())) {
			e.ext[key] = args[2]
			return e.C.True, false
		}
		return e.C.False, false
	})
}

// atomicPointerMethods: methods of the instantiations of atomic.Pointer[T], matched by name prefix in dispatch.
var atomicPointerMethods = map[string]interceptFn{}
