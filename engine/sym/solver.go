package sym

import (
	"bufio"
	"fmt"
	"io"
	"os"
	"os/exec"
	"strings"
	"time"
)

// Solver wraps one long-lived SMT solver process speaking SMT-LIB2 on stdin/stdout.
type Solver struct {
	Kind   string // "z3", "z3-new", "cvc5"
	cmd    *exec.Cmd
	in     io.WriteCloser
	out    *bufio.Reader
	log    io.Writer
	ctx    *Ctx
	scopes []*scope // declaration scopes mirroring push/pop
	// statistics
	Queries   int
	Sat       int
	Unsat     int
	Unknown   int
	Errors    int
	Time      time.Duration
	TimeoutMS int
	Dead      bool
	Restarts  int
}

type scope struct {
	vars map[string]bool
	ufs  map[string]bool
}

func NewSolver(kind string, ctx *Ctx, timeoutMS int, logPath string) (*Solver, error) {
	var cmd *exec.Cmd
	switch kind {
	case "z3", "z3-new":
		cmd = exec.Command(kind, "-in", "-smt2")
	case "cvc5":
		cmd = exec.Command("cvc5", "--incremental", "--lang=smt2", "--produce-models", fmt.Sprintf("--tlimit-per=%d", timeoutMS), "--fp-exp", "--bv-sat-solver=minisat")
	default:
		return nil, fmt.Errorf("unknown solver %s", kind)
	}
	in, err := cmd.StdinPipe()
	if err != nil {
		return nil, err
	}
	out, err := cmd.StdoutPipe()
	if err != nil {
		return nil, err
	}
	cmd.Stderr = cmd.Stdout
	if err := cmd.Start(); err != nil {
		return nil, err
	}
	s := &Solver{Kind: kind, cmd: cmd, in: in, out: bufio.NewReaderSize(out, 1<<16), ctx: ctx, TimeoutMS: timeoutMS}
	if logPath != "" {
		f, err := os.Create(logPath)
		if err == nil {
			s.log = f
		}
	}
	s.scopes = []*scope{{vars: map[string]bool{}, ufs: map[string]bool{}}}
	if kind != "cvc5" {
		s.send(fmt.Sprintf("(set-option :timeout %d)", timeoutMS))
		s.send("(set-option :model.completion true)")
	} else {
		s.send("(set-logic ALL)")
	}
	s.send("(set-option :produce-models true)")
	return s, nil
}

func (s *Solver) Close() {
	if s.cmd != nil {
		s.in.Close()
		s.cmd.Process.Kill()
		s.cmd.Wait()
	}
}

func (s *Solver) send(line string) {
	if s.log != nil {
		fmt.Fprintln(s.log, line)
	}
	io.WriteString(s.in, line)
	io.WriteString(s.in, "\n")
}

func (s *Solver) readLine() string {
	l, err := s.out.ReadString('\n')
	if err != nil {
		return "(error \"solver died: " + err.Error() + "\")"
	}
	l = strings.TrimSpace(l)
	if s.log != nil {
		fmt.Fprintln(s.log, "; -> "+l)
	}
	return l
}

// readSexp reads one balanced s-expression (possibly multi-line).
func (s *Solver) readSexp() string {
	var sb strings.Builder
	depth := 0
	started := false
	for {
		l := s.readLine()
		sb.WriteString(l)
		sb.WriteByte(' ')
		for _, ch := range l {
			if ch == '(' {
				depth++
				started = true
			} else if ch == ')' {
				depth--
			}
		}
		if (started && depth <= 0) || (!started && l != "") {
			break
		}
		if strings.HasPrefix(l, "(error \"solver died") {
			break
		}
	}
	return sb.String()
}

func (s *Solver) Push() {
	s.send("(push 1)")
	s.scopes = append(s.scopes, &scope{vars: map[string]bool{}, ufs: map[string]bool{}})
}

func (s *Solver) Pop() {
	s.send("(pop 1)")
	s.scopes = s.scopes[:len(s.scopes)-1]
}

func (s *Solver) Depth() int { return len(s.scopes) - 1 }

func (s *Solver) declared(name string, uf bool) bool {
	for _, sc := range s.scopes {
		if uf && sc.ufs[name] || !uf && sc.vars[name] {
			return true
		}
	}
	return false
}

func (s *Solver) declare(t *Term) {
	vars := map[string]Sort{}
	ufs := map[string]bool{}
	s.ctx.Vars(t, map[*Term]bool{}, vars, ufs)
	top := s.scopes[len(s.scopes)-1]
	for _, n := range sortedKeys(ufs) {
		if s.declared(n, true) {
			continue
		}
		d := s.ctx.UFs[n]
		as := make([]string, len(d.Args))
		for i, a := range d.Args {
			as[i] = a.SMT()
		}
		s.send(fmt.Sprintf("(declare-fun %s (%s) %s)", n, strings.Join(as, " "), d.Res.SMT()))
		top.ufs[n] = true
	}
	for _, n := range sortedKeys(vars) {
		if s.declared(n, false) {
			continue
		}
		s.send(fmt.Sprintf("(declare-const %s %s)", n, vars[n].SMT()))
		top.vars[n] = true
	}
}

// Declare makes sure every variable / UF in t is declared in the current scope.
func (s *Solver) Declare(t *Term) { s.declare(t) }

func (s *Solver) Assert(t *Term) {
	if t.IsTrue() {
		return
	}
	s.declare(t)
	s.send("(assert " + s.ctx.SMT(t) + ")")
}

// Result of a check.
type SatResult int

const (
	Unsat SatResult = iota
	SatRes
	UnknownRes
)

func (r SatResult) String() string { return [...]string{"unsat", "sat", "unknown"}[r] }

func (s *Solver) Check() SatResult {
	if s.Dead {
		s.Queries++
		s.Unknown++
		return UnknownRes
	}
	t0 := time.Now()
	s.send("(check-sat)")
	var l string
	for {
		l = s.readLine()
		if l == "" {
			continue
		}
		if strings.Contains(l, "fatal error") {
			s.Dead = true
			s.Errors++
			s.Queries++
			s.Unknown++
			return UnknownRes
		}
		if strings.HasPrefix(l, "(error") {
			// an error about an earlier command: treat the whole check as unknown, but keep reading to the verdict
			s.Errors++
			if strings.Contains(l, "solver died") || strings.Contains(l, "fatal error") {
				s.Dead = true
				s.Queries++
				s.Unknown++
				return UnknownRes
			}
			continue
		}
		break
	}
	s.Time += time.Since(t0)
	s.Queries++
	switch l {
	case "sat":
		s.Sat++
		return SatRes
	case "unsat":
		s.Unsat++
		return Unsat
	}
	s.Unknown++
	return UnknownRes
}

// CheckWith checks satisfiability of the current assertions plus extra, in a temporary scope.
func (s *Solver) CheckWith(extra *Term) SatResult {
	if extra.IsFalse() {
		return Unsat
	}
	s.Push()
	s.Assert(extra)
	r := s.Check()
	s.Pop()
	return r
}

// Values queries the model for the given terms (after a sat check in the current scope).
// Returns SMT-LIB value strings, one per term.
func (s *Solver) Values(ts []*Term) ([]string, error) {
	if len(ts) == 0 {
		return nil, nil
	}
	res := make([]string, len(ts))
	// query in chunks to keep lines manageable
	for i, t := range ts {
		s.send("(get-value (" + s.ctx.SMT(t) + "))")
		r := s.readSexp()
		if strings.Contains(r, "(error") {
			return nil, fmt.Errorf("get-value: %s", r)
		}
		// r = ((<term> <value>))
		v, err := lastElemOfPair(r)
		if err != nil {
			return nil, err
		}
		res[i] = v
	}
	return res, nil
}

// lastElemOfPair extracts VALUE from "((TERM VALUE))".
func lastElemOfPair(r string) (string, error) {
	r = strings.TrimSpace(r)
	if !strings.HasPrefix(r, "((") {
		return "", fmt.Errorf("unexpected get-value reply %q", r)
	}
	inner := strings.TrimSpace(r[2:])
	// strip trailing "))"
	inner = strings.TrimSpace(inner)
	if !strings.HasSuffix(inner, "))") {
		return "", fmt.Errorf("unexpected get-value reply %q", r)
	}
	inner = strings.TrimSpace(inner[:len(inner)-2])
	// skip first s-expr (the term)
	i := 0
	depth := 0
	for i < len(inner) {
		ch := inner[i]
		if ch == '(' {
			depth++
		} else if ch == ')' {
			depth--
			if depth == 0 {
				i++
				break
			}
		} else if (ch == ' ' || ch == '\t') && depth == 0 {
			break
		}
		i++
	}
	return strings.TrimSpace(inner[i:]), nil
}

// ParseValue turns an SMT value string into a uint64 (bit pattern for BV/FP, 0/1 for Bool, code for Int).
func ParseValue(v string, srt Sort) (uint64, error) {
	v = strings.TrimSpace(v)
	switch srt.K {
	case SBool:
		if v == "true" {
			return 1, nil
		}
		if v == "false" {
			return 0, nil
		}
	case SBV:
		if strings.HasPrefix(v, "#x") {
			var u uint64
			_, err := fmt.Sscanf(v[2:], "%x", &u)
			return u, err
		}
		if strings.HasPrefix(v, "#b") {
			var u uint64
			for _, ch := range v[2:] {
				u = u<<1 | uint64(ch-'0')
			}
			return u, nil
		}
		if strings.HasPrefix(v, "(_ bv") {
			var u uint64
			var w int
			_, err := fmt.Sscanf(v, "(_ bv%d %d)", &u, &w)
			return u, err
		}
	case SInt:
		v = strings.ReplaceAll(v, " ", "")
		neg := false
		if strings.HasPrefix(v, "(-") {
			neg = true
			v = strings.TrimSuffix(strings.TrimPrefix(v, "(-"), ")")
		}
		var i int64
		_, err := fmt.Sscanf(v, "%d", &i)
		if neg {
			i = -i
		}
		return uint64(i), err
	case SFP:
		// (fp #b0 #b... #b...) or (_ +zero 8 24) (_ NaN 8 24) (_ +oo 8 24)
		eb, sb := 8, 23
		if srt.W == 64 {
			eb, sb = 11, 52
		}
		if strings.HasPrefix(v, "(fp") {
			parts := strings.Fields(strings.Trim(v, "()"))
			if len(parts) == 4 {
				var bits uint64
				for _, p := range parts[1:] {
					if strings.HasPrefix(p, "#b") {
						for _, ch := range p[2:] {
							bits = bits<<1 | uint64(ch-'0')
						}
					} else if strings.HasPrefix(p, "#x") {
						for _, ch := range p[2:] {
							var d uint64
							fmt.Sscanf(string(ch), "%x", &d)
							bits = bits<<4 | d
						}
					}
				}
				return bits, nil
			}
		}
		expAll := (uint64(1)<<uint(eb) - 1) << uint(sb)
		switch {
		case strings.Contains(v, "+zero"):
			return 0, nil
		case strings.Contains(v, "-zero"):
			return uint64(1) << uint(eb+sb), nil
		case strings.Contains(v, "+oo"):
			return expAll, nil
		case strings.Contains(v, "-oo"):
			return expAll | uint64(1)<<uint(eb+sb), nil
		case strings.Contains(v, "NaN"):
			return expAll | uint64(1)<<uint(sb-1), nil
		}
	}
	return 0, fmt.Errorf("cannot parse value %q of sort %s", v, srt.SMT())
}
