package sym

// Race detection hooks (vector clocks + locksets) — active only inside Par blocks.
// Filled in by race_impl.go; these are the call sites used by the interpreter.

func (e *Exec) raceAccess(p *Pointer, write bool) {
	if e.par == nil || e.rd == nil {
		return
	}
	e.rd.access(e, p, write)
}
func (e *Exec) raceMap(m *MapObj, write bool) {
	if e.par == nil || e.rd == nil {
		return
	}
	e.rd.mapAccess(e, m, write)
}
func (e *Exec) raceSpawn(parent, child *Thread) {
	if e.rd != nil {
		e.rd.spawn(parent, child)
	}
}
func (e *Exec) raceJoin(parent, child *Thread) {
	if e.rd != nil {
		e.rd.join(parent, child)
	}
}
func (e *Exec) raceChanSend(c *ChanObj) {
	if e.rd != nil {
		e.rd.chanSend(e.cur, c)
	}
}
func (e *Exec) raceChanRecv(c *ChanObj) {
	if e.rd != nil {
		e.rd.chanRecv(e.cur, c)
	}
}
func (e *Exec) raceAcquire(m *muState, write bool) {
	if e.rd != nil {
		e.rd.acquire(e.cur, m, write)
	}
}
func (e *Exec) raceRelease(m *muState, write bool) {
	if e.rd != nil {
		e.rd.release(e.cur, m, write)
	}
}
func (e *Exec) raceOncePublish(key string) {
	if e.rd != nil {
		e.rd.publish(e.cur, "once:"+key)
	}
}
func (e *Exec) raceOnceObserve(key string) {
	if e.rd != nil {
		e.rd.observe(e.cur, "once:"+key)
	}
}
func (e *Exec) raceWgDone(st *wgState) {
	if e.rd != nil {
		e.rd.publishPtr(e.cur, st)
	}
}
func (e *Exec) raceWgWait(st *wgState) {
	if e.rd != nil {
		e.rd.observePtr(e.cur, st)
	}
}
