package sym

import (
	"fmt"
	"go/types"
	"strings"

	"golang.org/x/tools/go/ssa"
)

const ndPkg = "github.com/aukilabs/hagall/internal/verifnd."

func (e *Exec) freshND(kind string, s Sort) *Term {
	e.ndSeq++
	t := e.C.Var(fmt.Sprintf("nd!%d!%s", e.ndSeq, kind), s)
	e.ND = append(e.ND, NDEntry{Kind: kind, Term: t})
	e.S.Declare(t)
	return t
}

func (e *Exec) strArg(v Value) string {
	s, ok := e.C.StrValue(v.(*Term))
	if !ok {
		e.unsupported("symbolic label string")
	}
	return s
}

func (e *Exec) sliceElems(v Value) []Value {
	sl, ok := v.(*SliceV)
	if !ok || sl.Arr == nil {
		return nil
	}
	return sl.Arr.Val.(*ArrayV).E[sl.Off : sl.Off+sl.Len]
}

func init() {
	reg := func(name string, f interceptFn) { intercepts[ndPkg+name] = f }
	scalar := func(kind string, s Sort) interceptFn {
		return func(e *Exec, fv *FuncV, args []Value, cc *ssa.CallCommon) (Value, bool) {
			return e.freshND(kind, s), false
		}
	}
	reg("U8", scalar("u8", BV(8)))
	reg("U32", scalar("u32", BV(32)))
	reg("U64", scalar("u64", BV(64)))
	reg("I32", scalar("i32", BV(32)))
	reg("I64", scalar("i64", BV(64)))
	reg("F32", scalar("f32", FP(32)))
	reg("F64", scalar("f64", FP(64)))
	reg("SymBool", scalar("symbool", BoolSort))
	reg("Bool", func(e *Exec, fv *FuncV, args []Value, cc *ssa.CallCommon) (Value, bool) {
		k := e.Choose(2)
		e.ND = append(e.ND, NDEntry{Kind: "bool", Dec: k})
		return e.C.Bool(k == 1), false
	})
	reg("Choice", func(e *Exec, fv *FuncV, args []Value, cc *ssa.CallCommon) (Value, bool) {
		n := e.concreteInt(args[0], "Choice bound")
		k := e.Choose(n)
		e.ND = append(e.ND, NDEntry{Kind: "choice", Dec: k})
		return e.C.BVConst(64, uint64(k)), false
	})
	reg("Bytes", func(e *Exec, fv *FuncV, args []Value, cc *ssa.CallCommon) (Value, bool) {
		mx := args[0].(*Term)
		code := e.freshND("bytes", IntSort)
		c := e.C
		ln := c.App("len!", BV(64), code)
		// codes of symbolic content live above all literal codes are not required: content is opaque
		e.Assume(c.mk(&Term{Op: ">=", Sort: BoolSort, Args: []*Term{code, c.IntConst(0)}}))
		e.Assume(c.SLE(c.BVConst(64, 0), ln))
		e.Assume(c.SLE(ln, mx))
		e.Assume(c.Eq(c.Eq(code, c.IntConst(0)), c.Eq(ln, c.BVConst(64, 0))))
		// the replay value is the length
		e.ND[len(e.ND)-1].Term = ln
		e.ND[len(e.ND)-1].Kind = "bytes"
		e.S.Declare(ln)
		return &BytesV{Code: code}, false
	})
	reg("Str", func(e *Exec, fv *FuncV, args []Value, cc *ssa.CallCommon) (Value, bool) {
		code := e.freshND("str", IntSort)
		c := e.C
		ln := c.App("len!", BV(64), code)
		e.Assume(c.mk(&Term{Op: ">=", Sort: BoolSort, Args: []*Term{code, c.IntConst(0)}}))
		e.Assume(c.SLE(c.BVConst(64, 0), ln))
		// arbitrary strings are at most 64 KiB long (stated bound): the replay can then build one of the model's length
		e.Assume(c.SLE(ln, c.BVConst(64, 1<<16)))
		e.Assume(c.Eq(c.Eq(code, c.IntConst(0)), c.Eq(ln, c.BVConst(64, 0))))
		return code, false
	})
	reg("Assume", func(e *Exec, fv *FuncV, args []Value, cc *ssa.CallCommon) (Value, bool) {
		e.AssumeChecked(args[0].(*Term))
		return nil, false
	})
	reg("Assert", func(e *Exec, fv *FuncV, args []Value, cc *ssa.CallCommon) (Value, bool) {
		label := e.strArg(args[1])
		var keys []string
		for _, k := range e.sliceElems(args[2]) {
			keys = append(keys, e.strArg(k))
		}
		e.AssertProp(args[0].(*Term), label, keys)
		return nil, false
	})
	reg("Reach", func(e *Exec, fv *FuncV, args []Value, cc *ssa.CallCommon) (Value, bool) {
		// a reachability witness: the label counts only if the path condition is satisfiable here
		// (an inconsistent assumption or stub axiom would otherwise make every assertion pass vacuously)
		lab := e.strArg(args[0])
		if e.reachOK == nil {
			e.reachOK = map[int]bool{}
		}
		n := len(e.pathCond)
		ok, seen := e.reachOK[n]
		if !seen && e.dirty == 0 {
			ok, seen = true, true // nothing unchecked was assumed since the path was last known feasible
		}
		if !seen {
			r := e.S.Check()
			if r == Unsat {
				panic(pathEnd{"infeasible"})
			}
			ok = r == SatRes
			if ok {
				e.dirty = 0
			}
			e.reachOK[n] = ok
		}
		if ok {
			e.Reached[lab] = true
		}
		return nil, false
	})
	reg("Observe", func(e *Exec, fv *FuncV, args []Value, cc *ssa.CallCommon) (Value, bool) {
		o := Observation{Label: e.strArg(args[0])}
		for _, v := range e.sliceElems(args[1]) {
			o.Terms = append(o.Terms, v.(*Term))
		}
		e.Obs = append(e.Obs, o)
		return nil, false
	})
	reg("And", func(e *Exec, fv *FuncV, args []Value, cc *ssa.CallCommon) (Value, bool) {
		r := e.C.True
		for _, v := range e.sliceElems(args[0]) {
			r = e.C.And(r, v.(*Term))
		}
		return r, false
	})
	reg("Or", func(e *Exec, fv *FuncV, args []Value, cc *ssa.CallCommon) (Value, bool) {
		r := e.C.False
		for _, v := range e.sliceElems(args[0]) {
			r = e.C.Or(r, v.(*Term))
		}
		return r, false
	})
	reg("Implies", func(e *Exec, fv *FuncV, args []Value, cc *ssa.CallCommon) (Value, bool) {
		return e.C.Implies(args[0].(*Term), args[1].(*Term)), false
	})
	reg("Iff", func(e *Exec, fv *FuncV, args []Value, cc *ssa.CallCommon) (Value, bool) {
		return e.C.Eq(args[0].(*Term), args[1].(*Term)), false
	})
	ite := func(e *Exec, fv *FuncV, args []Value, cc *ssa.CallCommon) (Value, bool) {
		return e.C.Ite(args[0].(*Term), args[1].(*Term), args[2].(*Term)), false
	}
	reg("IteU32", ite)
	reg("IteU64", ite)
	reg("IteBool", ite)
	reg("IteStr", ite)
	reg("B2U", func(e *Exec, fv *FuncV, args []Value, cc *ssa.CallCommon) (Value, bool) {
		return e.C.Ite(args[0].(*Term), e.C.BVConst(64, 1), e.C.BVConst(64, 0)), false
	})
	reg("F32Bits", func(e *Exec, fv *FuncV, args []Value, cc *ssa.CallCommon) (Value, bool) {
		// bit pattern of a float32 for observation; NaNs canonicalised by the solver's to_ieee_bv are avoided: use fp.to_ieee via fresh var
		t := args[0].(*Term)
		if t.Const {
			return e.C.BVConst(64, t.U), false
		}
		return e.C.BVConv(e.C.mk(&Term{Op: "fp.to_ieee_bv", Sort: BV(32), Args: []*Term{t}}), 64, false), false
	})
	reg("SameF32", func(e *Exec, fv *FuncV, args []Value, cc *ssa.CallCommon) (Value, bool) {
		a, b := args[0].(*Term), args[1].(*Term)
		if a == b {
			return e.C.True, false
		}
		c := e.C
		return c.Or(c.FPCmp("fp.eq", a, b), c.And(c.FPUn("fp.isNaN", a), c.FPUn("fp.isNaN", b))), false
	})
	reg("SameBytes", func(e *Exec, fv *FuncV, args []Value, cc *ssa.CallCommon) (Value, bool) {
		return e.C.Eq(e.bytesCodeOrNil(args[0]), e.bytesCodeOrNil(args[1])), false
	})
	reg("BytesID", func(e *Exec, fv *FuncV, args []Value, cc *ssa.CallCommon) (Value, bool) {
		// observation handle for byte content: its length (content identity is checked with SameBytes)
		return e.sliceLen(args[0]), false
	})
	reg("StrID", func(e *Exec, fv *FuncV, args []Value, cc *ssa.CallCommon) (Value, bool) {
		return e.bytesLen(args[0].(*Term)), false
	})
	reg("Par", func(e *Exec, fv *FuncV, args []Value, cc *ssa.CallCommon) (Value, bool) {
		var fns []*FuncV
		for _, v := range e.sliceElems(args[0]) {
			fns = append(fns, v.(*FuncV))
		}
		e.runPar(fns)
		return nil, false
	})
	reg("Quiesce", func(e *Exec, fv *FuncV, args []Value, cc *ssa.CallCommon) (Value, bool) {
		e.quiesce()
		return nil, false
	})
	reg("FireTickers", func(e *Exec, fv *FuncV, args []Value, cc *ssa.CallCommon) (Value, bool) {
		e.fireTickers(args[0].(*Term))
		e.quiesce()
		return nil, false
	})
	reg("Gauge", func(e *Exec, fv *FuncV, args []Value, cc *ssa.CallCommon) (Value, bool) {
		// the metric is identified by its name; the engine only knows the Go variable holding the vector
		// (hagallSessionCount for "session_count"): compare modulo case and underscores
		norm := func(s string) string { return strings.ToLower(strings.ReplaceAll(s, "_", "")) }
		name := norm(e.strArg(args[0]))
		sum := e.C.BVConst(64, 0)
		for _, k := range e.gaugeKeys {
			v := k
			if i := strings.Index(v, "{"); i >= 0 {
				v = v[:i]
			}
			if i := strings.LastIndex(v, "."); i >= 0 {
				v = v[i+1:]
			}
			if strings.HasSuffix(norm(v), name) {
				sum = e.C.BVAdd(sum, e.gauges[k])
			}
		}
		return sum, false
	})
	reg("NCSPosts", func(e *Exec, fv *FuncV, args []Value, cc *ssa.CallCommon) (Value, bool) {
		posts, _ := e.ext["ncs.posts"].([]Value)
		st := fv.Fn.Signature.Results().At(0).Type().Underlying().(*types.Slice)
		if len(posts) == 0 {
			return &SliceV{}, false
		}
		arr := &ArrayV{E: make([]Value, len(posts))}
		for i, p := range posts {
			arr.E[i] = copyVal(p)
		}
		obj := e.newObject(types.NewArray(st.Elem(), int64(len(posts))), arr, "ncs posts")
		return &SliceV{Arr: obj, Len: len(posts), Cap: len(posts)}, false
	})
	reg("Yield", func(e *Exec, fv *FuncV, args []Value, cc *ssa.CallCommon) (Value, bool) {
		// an arbitrary scheduling point: either continue, or let every other thread run until it blocks
		k := e.Choose(2)
		e.ND = append(e.ND, NDEntry{Kind: "yield", Dec: k})
		if k == 1 {
			e.quiesce()
		}
		return nil, false
	})
	reg("SetCarrier", func(e *Exec, fv *FuncV, args []Value, cc *ssa.CallCommon) (Value, bool) {
		e.ext["carrier."+e.strArg(args[0])] = args[1].(*Term)
		return nil, false
	})
	reg("Sleep", func(e *Exec, fv *FuncV, args []Value, cc *ssa.CallCommon) (Value, bool) {
		d := args[0].(*Term)
		if _, ok := e.ext["clock.step"].(uint64); ok {
			if !d.Const {
				e.unsupported("Sleep with symbolic duration on a concrete clock")
			}
			cur, _ := e.ext["clock.cur"].(uint64)
			e.ext["clock.cur"] = cur + d.U
			return nil, false
		}
		if e.clock == nil {
			e.clock = e.C.BVConst(64, 0)
		}
		e.clock = e.C.BVAdd(e.clock, d)
		return nil, false
	})
	reg("CorruptBytes", func(e *Exec, fv *FuncV, args []Value, cc *ssa.CallCommon) (Value, bool) {
		// a single-field corruption of valid bytes: 0 = junk prepended, 1 = first byte dropped, 2 = one byte flipped
		c := e.C
		valid := e.bytesCode(args[0])
		mode := e.concreteInt(args[1], "corruption mode")
		e.ndSeq++
		x := c.Var(fmt.Sprintf("corrupt!%d", e.ndSeq), IntSort)
		e.S.Declare(x)
		lv, lx := e.bytesLen(valid), c.App("len!", BV(64), x)
		e.Assume(c.mk(&Term{Op: ">", Sort: BoolSort, Args: []*Term{x, c.IntConst(0)}}))
		e.Assume(c.Not(c.Eq(x, valid)))
		switch mode {
		case 0:
			e.Assume(c.Eq(lx, c.BVAdd(lv, c.BVConst(64, 2))))
			// the original bytes are its tail
			e.Assume(c.Implies(c.Eq(lv, c.BVConst(64, 32)), c.Eq(c.App("suffix32!", IntSort, x), valid)))
		case 1:
			e.Assume(c.Eq(lx, c.BVSub(lv, c.BVConst(64, 1))))
		default:
			e.Assume(c.Eq(lx, lv))
		}
		return &BytesV{Code: x}, false
	})
	reg("GoroutinesIn", func(e *Exec, fv *FuncV, args []Value, cc *ssa.CallCommon) (Value, bool) {
		// number of live threads (other than the caller) with a frame of a function whose name contains the substring
		sub := e.strArg(args[0])
		n := 0
		for _, t := range e.threads {
			if t == e.cur || t.State == TDone || len(t.Stack) == 0 {
				continue
			}
			for _, f := range t.Stack {
				if strings.Contains(e.P.fnName(f.fn), sub) {
					n++
					break
				}
			}
		}
		return e.C.BVConst(64, uint64(n)), false
	})
	reg("ConcreteClock", func(e *Exec, fv *FuncV, args []Value, cc *ssa.CallCommon) (Value, bool) {
		t := args[0].(*Term)
		if !t.Const {
			e.unsupported("ConcreteClock with symbolic step")
		}
		if t.U == 0 {
			delete(e.ext, "clock.step")
		} else {
			e.ext["clock.step"] = t.U
		}
		return nil, false
	})
	reg("Symbolic", func(e *Exec, fv *FuncV, args []Value, cc *ssa.CallCommon) (Value, bool) {
		return e.C.True, false
	})
	reg("NCSFail", func(e *Exec, fv *FuncV, args []Value, cc *ssa.CallCommon) (Value, bool) {
		// NCSFail(k): the credit service receives the k-th request (0-based) and then fails
		fails, _ := e.ext["ncs.fail"].(map[int]bool)
		if fails == nil {
			fails = map[int]bool{}
			e.ext["ncs.fail"] = fails
		}
		fails[e.concreteInt(args[0], "request index")] = true
		return nil, false
	})
	reg("NCSHold", func(e *Exec, fv *FuncV, args []Value, cc *ssa.CallCommon) (Value, bool) {
		holds, _ := e.ext["ncs.hold"].(map[int]bool)
		if holds == nil {
			holds = map[int]bool{}
			e.ext["ncs.hold"] = holds
		}
		holds[e.concreteInt(args[0], "request index")] = true
		return nil, false
	})
	reg("NCSRelease", func(e *Exec, fv *FuncV, args []Value, cc *ssa.CallCommon) (Value, bool) {
		e.ext["ncs.released"] = true
		return nil, false
	})
	reg("Preempt", func(e *Exec, fv *FuncV, args []Value, cc *ssa.CallCommon) (Value, bool) {
		e.ext["par.maxpre"] = e.concreteInt(args[0], "preemption bound")
		return nil, false
	})
	reg("Terminates", func(e *Exec, fv *FuncV, args []Value, cc *ssa.CallCommon) (Value, bool) {
		// Terminates(n, label): from here on the path may execute at most n more SSA instructions; n = 0 ends the
		// obligation. Exceeding the budget on a feasible path is a violation of kind "wedge" (a handler that spins).
		n := e.concreteInt(args[0], "step budget")
		if n <= 0 {
			e.termLabel = ""
			return nil, false
		}
		e.termLabel = e.strArg(args[1])
		e.termBudget = e.Stats.Steps + n
		return nil, false
	})
	reg("Tier", func(e *Exec, fv *FuncV, args []Value, cc *ssa.CallCommon) (Value, bool) {
		if e.Opts.Tier == "thorough" {
			return e.C.BVConst(64, 1), false
		}
		return e.C.BVConst(64, 0), false
	})
	reg("PokeU32", func(e *Exec, fv *FuncV, args []Value, cc *ssa.CallCommon) (Value, bool) {
		// PokeU32(ptr any, path string, v uint32): set an unexported uint32 field reachable from *ptr by dotted field names
		iv := args[0].(*IfaceV)
		p := iv.Val.(*Pointer)
		t := iv.Typ.Underlying().(*types.Pointer).Elem()
		for _, name := range strings.Split(e.strArg(args[1]), ".") {
			for {
				if pt, ok := t.Underlying().(*types.Pointer); ok {
					p = e.load(p).(*Pointer)
					t = pt.Elem()
					continue
				}
				break
			}
			st, ok := t.Underlying().(*types.Struct)
			if !ok {
				e.unsupported("PokeU32 through non-struct " + t.String())
			}
			found := false
			for i := 0; i < st.NumFields(); i++ {
				if st.Field(i).Name() == name {
					p = p.sub(i)
					t = st.Field(i).Type()
					found = true
					break
				}
			}
			if !found {
				e.unsupported("PokeU32: no field " + name + " in " + t.String())
			}
		}
		e.store(p, args[2])
		return nil, false
	})
}

func (e *Exec) bytesCodeOrNil(v Value) *Term {
	if s, ok := v.(*SliceV); ok && s.Arr == nil {
		return e.C.IntConst(0)
	}
	return e.bytesCode(v)
}
