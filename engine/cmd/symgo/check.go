package main

import (
	"bytes"
	"encoding/json"
	"flag"
	"fmt"
	"os"
	"os/exec"
	"path/filepath"
	"sort"
	"strconv"
	"strings"
	"time"

	"golang.org/x/tools/go/ssa"

	"symgo/sym"
)

type ssaPkg = ssa.Package

// HarnessSpec is one harness entry of a property check (checks.json).
type HarnessSpec struct {
	Pkg       string   `json:"pkg"` // repo-relative package dir, e.g. "websocket"
	Fn        string   `json:"fn"`
	Solver    string   `json:"solver,omitempty"`
	TimeoutMS int      `json:"timeout_ms,omitempty"`
	Race      bool     `json:"race,omitempty"`
	Preempt   int      `json:"preempt,omitempty"`
	PreemptT  int      `json:"preempt_thorough,omitempty"`
	Tiers     []string `json:"tiers,omitempty"` // default both
	Reach     []string `json:"reach"`           // labels that must be reached (vacuity guard)
	ReachT    []string `json:"reach_thorough,omitempty"`
	NoWitness bool     `json:"no_witness,omitempty"` // skip native witness validation (e.g. needs real time)
	ReplayMode string  `json:"replay_mode,omitempty"` // "", "race", "timeout"
	Optional  bool     `json:"optional,omitempty"` // inconclusive results reduce the claim instead of failing
}

type CheckSpec struct {
	Property    string        `json:"property"`
	Harnesses   []HarnessSpec `json:"harnesses"`
	Bounds      []string      `json:"bounds"`
	BoundsT     []string      `json:"bounds_thorough,omitempty"`
	Outside     []string      `json:"outside_claim"`
	Assumptions []string      `json:"assumptions"`
}

type KnownFinding struct {
	Property string   `json:"property"`
	Status   string   `json:"status"` // "open" | "fixed"
	Harness  string   `json:"harness,omitempty"`
	Kind     string   `json:"kind,omitempty"`
	Label    string   `json:"label"`
	Keys     []string `json:"keys,omitempty"` // all must appear among the violation's keys
	Commit   string   `json:"commit,omitempty"`
	What     string   `json:"what"`
}

type ReplayFile struct {
	Property string        `json:"property"`
	Pkg      string        `json:"pkg"`
	Harness  string        `json:"harness"`
	Kind     string        `json:"kind"`
	Label    string        `json:"label"`
	Keys     []string      `json:"keys"`
	Msg      string        `json:"msg"`
	Where    string        `json:"where"`
	Mode     string        `json:"mode"`
	ND       []sym.NDValue `json:"nd"`
	Tier     string        `json:"tier"`
	Sched    bool          `json:"sched,omitempty"`
	MaxPre   int           `json:"max_preempt,omitempty"`
}

func readJSON(path string, v interface{}) error {
	b, err := os.ReadFile(path)
	if err != nil {
		return err
	}
	return json.Unmarshal(b, v)
}

type nativeRunner struct {
	overlaySched string
	verif   string
	repo    string
	work    string
	bins    map[string]string // pkg|race -> test binary
	overlay string
	tier    string
	builds  int
	buildS  float64
}

// schedOverlay extends the plain overlay with copies of the repository's sources in which the import of
// "sync" is replaced by the scheduling-aware drop-in (internal/verifsync). Nothing is written into /repo.
func (n *nativeRunner) schedOverlay() (string, error) {
	if n.overlaySched != "" {
		return n.overlaySched, nil
	}
	if err := n.ensureOverlay(); err != nil {
		return "", err
	}
	var doc struct{ Replace map[string]string }
	if err := readJSON(n.overlay, &doc); err != nil {
		return "", err
	}
	k := 0
	for _, dir := range []string{"models", "websocket", "modules/vikja", "modules/odal", "modules/dagaz", "receipt", "featureflag"} {
		ents, _ := os.ReadDir(filepath.Join(n.repo, dir))
		for _, en := range ents {
			name := en.Name()
			if en.IsDir() || !strings.HasSuffix(name, ".go") || strings.HasSuffix(name, "_test.go") {
				continue
			}
			src := filepath.Join(n.repo, dir, name)
			b, err := os.ReadFile(src)
			if err != nil {
				continue
			}
			var nb []byte
			if bytes.Contains(b, []byte("\t\"sync/atomic\"\n")) {
				b = bytes.Replace(b, []byte("\t\"sync/atomic\"\n"), []byte("\tatomic \"github.com/aukilabs/hagall/internal/verifatomic\"\n"), 1)
				nb = b
			}
			switch {
			case bytes.Contains(b, []byte("\t\"sync\"\n")):
				nb = bytes.Replace(b, []byte("\t\"sync\"\n"), []byte("\tsync \"github.com/aukilabs/hagall/internal/verifsync\"\n"), 1)
			case bytes.Contains(b, []byte("import \"sync\"\n")):
				nb = bytes.Replace(b, []byte("import \"sync\"\n"), []byte("import sync \"github.com/aukilabs/hagall/internal/verifsync\"\n"), 1)
			default:
				if nb == nil {
					continue
				}
			}
			if dir == "websocket" && name == "handler.go" {
				// the engine treats queueing a message for a client as a scheduling point: same hook natively
				nb = bytes.ReplaceAll(nb, []byte("\th.sendChan <- msg\n"), []byte("\tsync.Point()\n\th.sendChan <- msg\n"))
			}
			k++
			dst := filepath.Join(n.work, fmt.Sprintf("sched_%d_%s", k, name))
			if err := os.WriteFile(dst, nb, 0o644); err != nil {
				return "", err
			}
			doc.Replace[src] = dst
		}
	}
	// the harness files themselves: their own mutexes and atomics are scheduling points in the engine too
	for target, src := range doc.Replace {
		base := filepath.Base(target)
		if !strings.HasPrefix(base, "zz_verif_") || strings.HasSuffix(base, "_test.go") || !strings.HasSuffix(base, ".go") {
			continue
		}
		b, err := os.ReadFile(src)
		if err != nil {
			continue
		}
		nb := b
		nb = bytes.Replace(nb, []byte("\t\"sync/atomic\"\n"), []byte("\tatomic \"github.com/aukilabs/hagall/internal/verifatomic\"\n"), 1)
		nb = bytes.Replace(nb, []byte("\t\"sync\"\n"), []byte("\tsync \"github.com/aukilabs/hagall/internal/verifsync\"\n"), 1)
		if bytes.Equal(nb, b) {
			continue
		}
		k++
		dst := filepath.Join(n.work, fmt.Sprintf("sched_%d_%s", k, base))
		if err := os.WriteFile(dst, nb, 0o644); err != nil {
			return "", err
		}
		doc.Replace[target] = dst
	}
	b, _ := json.Marshal(doc)
	n.overlaySched = filepath.Join(n.work, "overlay_sched.json")
	return n.overlaySched, os.WriteFile(n.overlaySched, b, 0o644)
}

func (n *nativeRunner) ensureOverlay() error {
	if n.overlay != "" {
		return nil
	}
	hd := filepath.Join(n.verif, "harness")
	repl := map[string]string{}
	pkgFns := map[string][]string{}
	err := filepath.Walk(hd, func(path string, info os.FileInfo, err error) error {
		if err != nil || info.IsDir() || !strings.HasSuffix(path, ".go") {
			return err
		}
		rel, _ := filepath.Rel(hd, path)
		repl[filepath.Join(n.repo, rel)] = path
		if strings.HasPrefix(filepath.Base(path), "zz_verif_") {
			b, _ := os.ReadFile(path)
			for _, line := range strings.Split(string(b), "\n") {
				if strings.HasPrefix(line, "func Verif") && strings.Contains(line, "()") {
					name := strings.TrimPrefix(line, "func ")
					name = name[:strings.Index(name, "(")]
					pkgFns[filepath.Dir(rel)] = append(pkgFns[filepath.Dir(rel)], name)
				}
			}
		}
		return nil
	})
	if err != nil {
		return err
	}
	// one generated replay test per harness package
	for dir, fns := range pkgFns {
		sort.Strings(fns)
		pkgName := filepath.Base(dir)
		var sb strings.Builder
		sb.WriteString("//go:build verif\n\npackage " + pkgName + "\n\nimport (\n\t\"fmt\"\n\t\"os\"\n\t\"testing\"\n\n\t\"github.com/aukilabs/hagall/internal/verifnd\"\n\t\"github.com/aukilabs/hagall/internal/verifsync\"\n)\n\nfunc init() { verifnd.ParRunner = verifsync.RunPar }\n\n")
		sb.WriteString("func TestVerifReplay(t *testing.T) {\n\tif err := verifnd.Load(os.Getenv(\"VERIFND_REPLAY\")); err != nil {\n\t\tt.Fatal(err)\n\t}\n")
		sb.WriteString("\tdefer func() {\n\t\tif r := recover(); r != nil {\n\t\t\tfmt.Printf(\"VERIFND-PANIC %v\\n\", r)\n\t\t\tpanic(r)\n\t\t}\n\t}()\n")
		sb.WriteString("\tswitch os.Getenv(\"VERIFND_FN\") {\n")
		for _, f := range fns {
			sb.WriteString("\tcase \"" + f + "\":\n\t\t" + f + "()\n")
		}
		sb.WriteString("\tdefault:\n\t\tt.Fatal(\"unknown harness\")\n\t}\n\tfmt.Println(\"VERIFND-END\")\n}\n")
		gen := filepath.Join(n.work, "gen_"+strings.ReplaceAll(dir, "/", "_")+"_replay_test.go")
		if err := os.WriteFile(gen, []byte(sb.String()), 0o644); err != nil {
			return err
		}
		repl[filepath.Join(n.repo, dir, "zz_verif_replay_test.go")] = gen
	}
	// the latency measurement reads the clock through internal/veriftime (controllable by the harness)
	if src, err := os.ReadFile(filepath.Join(n.repo, "models", "signed_latency.go")); err == nil && bytes.Contains(src, []byte("\t\"time\"\n")) {
		dst := filepath.Join(n.work, "time_signed_latency.go")
		nb := bytes.Replace(src, []byte("\t\"time\"\n"), []byte("\ttime \"github.com/aukilabs/hagall/internal/veriftime\"\n"), 1)
		nb = append(nb, []byte("\nfunc init() { time.MarkInUse() }\n")...)
		if os.WriteFile(dst, nb, 0o644) == nil {
			repl[filepath.Join(n.repo, "models", "signed_latency.go")] = dst
		}
	}
	b, _ := json.Marshal(map[string]interface{}{"Replace": repl})
	n.overlay = filepath.Join(n.work, "overlay.json")
	return os.WriteFile(n.overlay, b, 0o644)
}

func (n *nativeRunner) binary(pkg string, race bool) (string, error) {
	return n.binaryMode(pkg, race, false)
}

func (n *nativeRunner) binaryMode(pkg string, race, sched bool) (string, error) {
	key := pkg + "|" + strconv.FormatBool(race) + "|" + strconv.FormatBool(sched)
	if b, ok := n.bins[key]; ok {
		return b, nil
	}
	if err := n.ensureOverlay(); err != nil {
		return "", err
	}
	ov := n.overlay
	if sched {
		var err error
		if ov, err = n.schedOverlay(); err != nil {
			return "", err
		}
	}
	out := filepath.Join(n.work, strings.ReplaceAll(pkg, "/", "_")+map[bool]string{true: ".race", false: ""}[race]+map[bool]string{true: ".sched", false: ""}[sched]+".test")
	args := []string{"test", "-c", "-tags", "verif", "-vet=off", "-overlay", ov, "-o", out}
	if race {
		args = append(args, "-race")
	}
	args = append(args, "./"+pkg)
	cmd := exec.Command("go", args...)
	cmd.Dir = n.repo
	cmd.Env = append(os.Environ(), "GOFLAGS=-mod=readonly", "GOPROXY=off", "GOSUMDB=off", "GOTOOLCHAIN=local")
	t0 := time.Now()
	ob, err := cmd.CombinedOutput()
	n.builds++
	n.buildS += time.Since(t0).Seconds()
	if err != nil {
		return "", fmt.Errorf("native build failed: %v\n%s", err, ob)
	}
	n.bins[key] = out
	return out, nil
}

// run executes harness fn natively with the given replay values. Returns combined output and whether it timed out.
func (n *nativeRunner) run(pkg, fn string, nd []sym.NDValue, race bool, timeout time.Duration, tag string) (string, error) {
	return n.runMode(pkg, fn, nd, race, false, 0, timeout, tag)
}

func (n *nativeRunner) runMode(pkg, fn string, nd []sym.NDValue, race, sched bool, maxPre int, timeout time.Duration, tag string) (string, error) {
	bin, err := n.binaryMode(pkg, race, sched)
	if err != nil {
		return "", err
	}
	rf := filepath.Join(n.work, "replay_"+tag+".json")
	b, _ := json.Marshal(map[string]interface{}{"nd": nd})
	os.WriteFile(rf, b, 0o644)
	args := []string{bin, "-test.run", "^TestVerifReplay$", "-test.count=1", "-test.timeout", timeout.String()}
	cmd := exec.Command(args[0], args[1:]...)
	if !race {
		// a counterexample may be an enormous allocation: cap the replay's address space (the race detector's
		// shadow memory does not fit under such a cap)
		cmd = exec.Command("sh", append([]string{"-c", `ulimit -v 8388608; exec "$@"`, "sh"}, args...)...)
	}
	cmd.Dir = filepath.Join(n.repo, pkg)
	cmd.Env = append(os.Environ(), "VERIFND_REPLAY="+rf, "VERIFND_FN="+fn, "VERIF_TIER="+n.tier)
	if sched {
		cmd.Env = append(cmd.Env, "VERIFND_SCHED=1", fmt.Sprintf("VERIFND_MAXPRE=%d", maxPre))
	}
	var buf bytes.Buffer
	cmd.Stdout, cmd.Stderr = &buf, &buf
	done := make(chan error, 1)
	if err := cmd.Start(); err != nil {
		return "", err
	}
	go func() { done <- cmd.Wait() }()
	select {
	case <-done:
	case <-time.After(timeout + 20*time.Second):
		cmd.Process.Kill()
		<-done
		buf.WriteString("\nKILLED-BY-WATCHDOG\n")
	}
	return buf.String(), nil
}

// confirms decides whether native output reproduces the violation.
func confirms(kind, label, out string) bool {
	switch kind {
	case "assert":
		for _, l := range strings.Split(out, "\n") {
			if strings.HasPrefix(l, "VERIFND-ASSERT-FAILED "+label+" ") || l == "VERIFND-ASSERT-FAILED "+label {
				return true
			}
		}
		return false
	case "race":
		return strings.Contains(out, "WARNING: DATA RACE")
	case "deadlock", "wedge":
		return strings.Contains(out, "test timed out") || strings.Contains(out, "KILLED-BY-WATCHDOG") || strings.Contains(out, "all goroutines are asleep") || strings.Contains(out, "VERIFND-DEADLOCK")
	default: // run-time panics
		return strings.Contains(out, "VERIFND-PANIC") || strings.Contains(out, "panic:") || strings.Contains(out, "fatal error:")
	}
}

func matchKnown(kfs []KnownFinding, prop string, v *sym.Violation) *KnownFinding {
	for i := range kfs {
		k := &kfs[i]
		if k.Property != prop || k.Label != v.Label {
			continue
		}
		if k.Harness != "" && k.Harness != v.Harness {
			continue
		}
		if k.Kind != "" && k.Kind != v.Kind {
			continue
		}
		ok := true
		for _, want := range k.Keys {
			found := false
			for _, have := range v.Keys {
				if have == want || strings.Contains(have, want) {
					found = true
				}
			}
			if !found {
				ok = false
			}
		}
		if ok {
			return k
		}
	}
	return nil
}

func cmdCheck(args []string) {
	fs := flag.NewFlagSet("check", flag.ExitOnError)
	repo := fs.String("repo", envOr("VERIF_REPO", "/repo"), "repository root")
	verif := fs.String("verif", "/verif", "verif root")
	workers := fs.Int("workers", envInt("VERIF_WORKERS", 16), "parallel workers")
	replay := fs.String("replay", "", "replay a saved counterexample file natively")
	only := fs.String("only", "", "run only this harness function")
	keep := fs.Bool("keep", false, "keep work dir")
	fs.Parse(args)

	work := filepath.Join(*verif, ".work", fmt.Sprintf("run-%d", os.Getpid()))
	os.MkdirAll(work, 0o755)
	if !*keep {
		defer os.RemoveAll(work)
	}

	if *replay != "" {
		var rf ReplayFile
		if err := readJSON(*replay, &rf); err != nil {
			fmt.Println("cannot read replay file:", err)
			os.Exit(2)
		}
		nr := &nativeRunner{verif: *verif, repo: *repo, work: work, bins: map[string]string{}, tier: rf.Tier}
		out, err := nr.runMode(rf.Pkg, rf.Harness, rf.ND, rf.Mode == "race", rf.Sched, rf.MaxPre, 60*time.Second, "manual")
		if err != nil {
			fmt.Println(err)
			os.RemoveAll(work)
			os.Exit(2)
		}
		fmt.Print(out)
		if confirms(rf.Kind, rf.Label, out) {
			fmt.Printf("REPRODUCED property=%s harness=%s kind=%s label=%s\n", rf.Property, rf.Harness, rf.Kind, rf.Label)
			os.RemoveAll(work)
			os.Exit(1)
		}
		fmt.Println("NOT-REPRODUCED")
		return
	}

	rest := fs.Args()
	if len(rest) < 1 {
		fmt.Println("usage: symgo check <property> [quick|thorough]")
		os.Exit(2)
	}
	prop := rest[0]
	tier := "quick"
	if len(rest) > 1 {
		tier = rest[1]
	}
	if t := os.Getenv("VERIF_TIER"); t != "" && len(rest) < 2 {
		tier = t
	}
	seed, _ := strconv.Atoi(os.Getenv("VERIF_SEED"))
	t0 := time.Now()

	var specs map[string]*CheckSpec
	if err := readJSON(filepath.Join(*verif, "checks.json"), &specs); err != nil {
		fmt.Println("cannot read checks.json:", err)
		os.Exit(2)
	}
	spec := specs[prop]
	if spec == nil {
		fmt.Println("no check registered for", prop)
		os.Exit(2)
	}
	var known []KnownFinding
	readJSON(filepath.Join(*verif, "known_findings.json"), &known)

	p, pkgs, err := loadProgram(*repo, filepath.Join(*verif, "harness"))
	if err != nil {
		fmt.Println("ENGINE: cannot load /repo with harness overlay:", err)
		os.RemoveAll(work)
		os.Exit(2)
	}
	loadS := time.Since(t0).Seconds()

	nr := &nativeRunner{verif: *verif, repo: *repo, work: work, bins: map[string]string{}, tier: tier}
	evDir := envOr("VERIF_EVIDENCE_DIR", filepath.Join(*verif, "evidence"))
	replayDir := filepath.Join(evDir, "replays", prop)
	os.RemoveAll(replayDir)

	exit := 0
	fail2 := func(msg string) {
		fmt.Println("ENGINE:", msg)
		if exit < 2 {
			exit = 2
		}
	}

	type hsum struct {
		Harness   string  `json:"harness"`
		Paths     int     `json:"paths"`
		Queries   int     `json:"queries"`
		Unsat     int     `json:"unsat"`
		Sat       int     `json:"sat"`
		Unknown   int     `json:"unknown"`
		SolverS   float64 `json:"solver_time_s"`
		WallS     float64 `json:"wall_s"`
		Solver    string  `json:"solver"`
		Schedules int     `json:"schedules"`
		Asserts   int     `json:"assertions_solver_decided"`
		Trivial   int     `json:"assertions_constant_folded"`
		Implicit  int     `json:"implicit_panic_checks_solver_decided"`
		Forks     int     `json:"forks"`
		Steps     int     `json:"ssa_instructions_executed"`
	}
	var hs []hsum
	funcs := map[string]bool{}
	stubs := map[string]bool{}
	var samples []interface{}
	totalPaths, totalForks, totalQueries, tracesValidated := 0, 0, 0, 0
	distinct := 0
	unconfirmed, knownHit, violations := 0, 0, 0
	var inconclusive []string
	knownPrinted := map[string]bool{}
	var witnessSamples []interface{}

	for _, h := range spec.Harnesses {
		if *only != "" && h.Fn != *only {
			continue
		}
		if len(h.Tiers) > 0 && !contains(h.Tiers, tier) {
			continue
		}
		sp := pkgs["github.com/aukilabs/hagall/"+h.Pkg]
		if sp == nil {
			fail2("no package " + h.Pkg)
			continue
		}
		fn := sp.Func(h.Fn)
		if fn == nil {
			fail2("no harness function " + h.Fn)
			continue
		}
		solver := h.Solver
		if solver == "" {
			solver = "z3"
		}
		to := h.TimeoutMS
		if to == 0 {
			to = 30000
		}
		if tier == "thorough" && to < 120000 {
			to = 120000
		}
		pre := h.Preempt
		if tier == "thorough" && h.PreemptT > 0 {
			pre = h.PreemptT
		}
		hfn := h.Fn
		eo := &sym.ExploreOpts{Workers: *workers, Solver: solver, TimeoutMS: to, Race: h.Race,
			Opts: &sym.Options{Tier: tier, MaxPreempt: pre},
			KnownKey: func(key string) bool {
				parts := strings.SplitN(key, "|", 3)
				if len(parts) < 3 {
					return false
				}
				v := &sym.Violation{Kind: parts[0], Label: parts[1], Keys: strings.Split(parts[2], ","), Harness: hfn}
				kf := matchKnown(known, prop, v)
				return kf != nil && kf.Status == "open"
			}}
		r := sym.Explore(p, fn, eo)
		hs = append(hs, hsum{Harness: h.Fn, Paths: r.Paths, Queries: r.Queries, Unsat: r.QUnsat, Sat: r.QSat, Unknown: r.QUnknown,
			SolverS: round3(r.SolverTime.Seconds()), WallS: round3(r.Wall.Seconds()), Solver: solver, Schedules: r.Schedules,
			Asserts: r.Stats.AssertsChecked, Trivial: r.Stats.AssertsTrivial, Implicit: r.Stats.ImplicitChecked, Forks: r.Stats.Forks, Steps: r.Stats.Steps})
		totalPaths += r.Paths
		totalForks += r.Stats.Forks + r.Stats.SchedPoints
		totalQueries += r.Queries
		distinct += r.Paths - r.Infeasible
		for f := range r.Functions {
			funcs[f] = true
		}
		for s := range r.Stubs {
			stubs[s] = true
		}
		for _, s := range r.Samples {
			if len(samples) < 6 {
				samples = append(samples, map[string]interface{}{"harness": h.Fn, "decisions": s.Decisions, "path_condition_head": s.PathCond, "nd_values": s.NDKinds, "reached": s.Reached})
			}
		}
		fmt.Printf("harness %s: %d paths, %d queries (unsat %d, sat %d, unknown %d), solver %.1fs, wall %.1fs\n", h.Fn, r.Paths, r.Queries, r.QUnsat, r.QSat, r.QUnknown, r.SolverTime.Seconds(), r.Wall.Seconds())
		for _, e := range r.EngineErrors {
			fail2(h.Fn + ": " + e)
		}
		if r.QErrors > 0 {
			fail2(fmt.Sprintf("%s: %d solver (error lines", h.Fn, r.QErrors))
		}
		for _, s := range r.Inconclusive {
			fmt.Printf("INCONCLUSIVE property=%s item=%s: %s\n", prop, h.Fn, s)
			inconclusive = append(inconclusive, h.Fn+": "+s)
		}
		if len(r.Inconclusive) > 0 && !h.Optional {
			fail2(h.Fn + ": undecided queries (solver unknown/timeout) in a required harness")
		}
		// vacuity guard
		need := h.Reach
		if tier == "thorough" {
			need = append(append([]string{}, need...), h.ReachT...)
		}
		for _, lab := range need {
			if !r.Reached[lab] {
				fail2(fmt.Sprintf("%s: vacuous — label %q not reached by any feasible path", h.Fn, lab))
			}
		}
		// translator validation: replay the witness path natively and compare observations
		if r.Witness != nil && !h.NoWitness && len(r.EngineErrors) == 0 {
			// a witness through a Par block is replayed under the deterministic scheduler (real goroutines would
			// pick their own interleaving)
			want := obsLines(r.Witness.Obs)
			var out string
			var got []string
			var err error
			// native runs involve real goroutines, timers and sockets: a mismatch must persist over three runs
			for try := 0; try < 3; try++ {
				out, err = nr.runMode(h.Pkg, h.Fn, r.Witness.ND, false, hasKind(r.Witness.ND, "sched"), pre, 120*time.Second, "witness_"+h.Fn)
				if err != nil {
					break
				}
				got = grepPrefix(out, "VERIFND-OBS ")
				if strings.Contains(out, "VERIFND-END") && !strings.Contains(out, "VERIFND-ASSERT-FAILED") && strings.Join(want, "\n") == strings.Join(got, "\n") {
					break
				}
			}
			if err != nil {
				fail2(err.Error())
			} else {
				if !strings.Contains(out, "VERIFND-END") || strings.Contains(out, "VERIFND-ASSERT-FAILED") || strings.Join(want, "\n") != strings.Join(got, "\n") {
					fail2(fmt.Sprintf("%s: translator validation mismatch on witness path\n--- predicted\n%s\n--- native\n%s\n--- native tail\n%s", h.Fn, strings.Join(want, "\n"), strings.Join(got, "\n"), tail(out, 25)))
				} else {
					tracesValidated++
					if len(witnessSamples) < 3 {
						witnessSamples = append(witnessSamples, map[string]interface{}{"harness": h.Fn, "witness_nd_values": len(r.Witness.ND), "observations_compared": want})
					}
				}
			}
		} else if r.Witness == nil && !h.NoWitness && len(r.EngineErrors) == 0 {
			fail2(h.Fn + ": no complete feasible path found for translator validation")
		}
		// violations: replay each natively before reporting
		for i, v := range r.Violations {
			if i >= 8 {
				fmt.Printf("NOTE property=%s harness=%s: %d further distinct candidate(s) not replayed (cap 8 per harness)\n", prop, h.Fn, len(r.Violations)-8)
				if kfAll(known, prop, r.Violations[8:]) {
					break
				}
				if exit < 1 {
					exit = 1
				}
				break
			}
			mode := h.ReplayMode
			if v.Kind == "race" {
				mode = "race"
			}
			tag := fmt.Sprintf("%s_%d", h.Fn, i)
			timeout := 60 * time.Second
			if v.Kind == "deadlock" || v.Kind == "wedge" {
				timeout = 15 * time.Second
			}
			confirmed := false
			var out string
			tries := 1
			if mode == "race" || hasKind(v.ND, "order") || hasKind(v.ND, "select") {
				tries = 25
			}
			useSched := hasKind(v.ND, "sched") && v.Kind != "race"
			if useSched {
				tries = 3
			}
			for k := 0; k < tries && !confirmed; k++ {
				out, err = nr.runMode(h.Pkg, h.Fn, v.ND, mode == "race", useSched, pre, timeout, tag)
				if err != nil {
					fail2(err.Error())
					break
				}
				confirmed = confirms(v.Kind, v.Label, out)
			}
			if !confirmed {
				unconfirmed++
				fmt.Printf("UNCONFIRMED property=%s harness=%s kind=%s label=%s keys=%v: solver model did not reproduce natively (%s)\n   native tail: %s\n", prop, h.Fn, v.Kind, v.Label, v.Keys, v.Msg, strings.ReplaceAll(tail(out, 6), "\n", "\n   "))
				continue
			}
			if kf := matchKnown(known, prop, v); kf != nil && kf.Status == "open" {
				knownHit++
				key := kf.Label + "|" + strings.Join(kf.Keys, ",") + "|" + kf.Harness
				if !knownPrinted[key] {
					knownPrinted[key] = true
					fmt.Printf("KNOWN-FINDING: property=%s %s\n", prop, kf.What)
				}
				continue
			}
			violations++
			os.MkdirAll(replayDir, 0o755)
			rp := filepath.Join(replayDir, fmt.Sprintf("%s-%s-%d.json", h.Fn, sanitize(v.Label), i))
			rf := ReplayFile{Property: prop, Pkg: h.Pkg, Harness: h.Fn, Kind: v.Kind, Label: v.Label, Keys: v.Keys, Msg: v.Msg, Where: v.Where, Mode: mode, ND: v.ND, Tier: tier, Sched: useSched, MaxPre: pre}
			b, _ := json.MarshalIndent(rf, "", " ")
			os.WriteFile(rp, b, 0o644)
			fmt.Printf("VIOLATION property=%s replay=%s\n   %s label=%s keys=%v: %s\n   at %s\n", prop, rp, v.Kind, v.Label, v.Keys, v.Msg, v.Where)
			if exit < 1 {
				exit = 1
			}
		}
	}
	if unconfirmed > 0 {
		fail2(fmt.Sprintf("%d solver counterexample(s) did not reproduce natively: the encoding or a stub is wrong for this tree; nothing is claimed", unconfirmed))
	}

	// evidence
	var fl []string
	for f := range funcs {
		if strings.Contains(f, "aukilabs/hagall") && !strings.Contains(f, "verifnd") {
			fl = append(fl, f)
		}
	}
	sort.Strings(fl)
	var sl []string
	for s := range stubs {
		sl = append(sl, s)
	}
	sort.Strings(sl)
	bounds := spec.Bounds
	if tier == "thorough" && len(spec.BoundsT) > 0 {
		bounds = spec.BoundsT
	}
	if len(samples) == 0 {
		samples = append(samples, "no complete path")
	}
	cov := map[string]interface{}{
		"states":                        max1(totalPaths),
		"transitions":                   max1(totalForks),
		"traces_validated_against_impl": tracesValidated,
		"samples":                       append(samples, witnessSamples...),
		"evaluations":                   totalQueries,
		"distinct_nontrivial":           distinct,
		"rule":                          "one case = one feasible control path of a harness through the real SSA (all data values on it covered by the solver); distinct = different decision traces; non-trivial = reached its end with a satisfiable path condition",
		"functions_encoded":             fl,
		"functions_encoded_count":       len(fl),
		"bounds":                        bounds,
		"outside_claim":                 spec.Outside,
		"harnesses":                     hs,
		"queries_discharged":            totalQueries,
		"unconfirmed_candidates":        unconfirmed,
		"known_findings_hit":            knownHit,
		"inconclusive_items":            inconclusive,
		"package_load_s":                round3(loadS),
		"native_builds":                 nr.builds,
		"native_build_s":                round3(nr.buildS),
		"exhaustive":                    false,
	}
	ev := map[string]interface{}{
		"property_id": prop,
		"tier":        tier,
		"seed":        seed,
		"level":       "model_checking",
		"coverage":    cov,
		"assumptions": append(append([]string{}, spec.Assumptions...), prefixAll("stub: ", sl)...),
		"wall_s":      round3(time.Since(t0).Seconds()),
		"violations":  violations,
	}
	os.MkdirAll(evDir, 0o755)
	b, _ := json.MarshalIndent(ev, "", " ")
	os.WriteFile(filepath.Join(evDir, prop+".json"), b, 0o644)
	if violations > 0 {
		// a natively reproduced violation is the verdict, even if it also made later parts of a harness
		// unreachable (vacuity) or left other candidates unconfirmed
		exit = 1
	}
	fmt.Printf("check %s %s: exit %d, %d paths, %d queries, %d violations, %d known, wall %.1fs\n", prop, tier, exit, totalPaths, totalQueries, violations, knownHit, time.Since(t0).Seconds())
	if !*keep {
		os.RemoveAll(work)
	}
	os.Exit(exit)
}

// kfAll: every remaining candidate matches an open known finding.
func kfAll(kfs []KnownFinding, prop string, vs []*sym.Violation) bool {
	for _, v := range vs {
		kf := matchKnown(kfs, prop, v)
		if kf == nil || kf.Status != "open" {
			return false
		}
	}
	return true
}

func envInt(k string, d int) int {
	if v, err := strconv.Atoi(os.Getenv(k)); err == nil && v > 0 {
		return v
	}
	return d
}

func envOr(k, d string) string {
	if v := os.Getenv(k); v != "" {
		return v
	}
	return d
}

func contains(xs []string, x string) bool {
	for _, y := range xs {
		if y == x {
			return true
		}
	}
	return false
}

func hasKind(nd []sym.NDValue, k string) bool {
	for _, n := range nd {
		if n.Kind == k {
			return true
		}
	}
	return false
}

func round3(f float64) float64 { return float64(int(f*1000)) / 1000 }

func max1(n int) int {
	if n < 1 {
		return 1
	}
	return n
}

func prefixAll(p string, xs []string) []string {
	out := make([]string, len(xs))
	for i, x := range xs {
		out[i] = p + x
	}
	return out
}

func obsLines(obs []sym.ObsValue) []string {
	var out []string
	for _, o := range obs {
		var sb strings.Builder
		sb.WriteString("VERIFND-OBS " + o.Label)
		for _, v := range o.Vals {
			sb.WriteString(" " + strconv.FormatUint(v, 10))
		}
		out = append(out, sb.String())
	}
	return out
}

func grepPrefix(out, p string) []string {
	var r []string
	for _, l := range strings.Split(out, "\n") {
		if strings.HasPrefix(l, p) {
			r = append(r, strings.TrimRight(l, " \r"))
		}
	}
	return r
}

func tail(s string, n int) string {
	ls := strings.Split(strings.TrimRight(s, "\n"), "\n")
	if len(ls) > n {
		ls = ls[len(ls)-n:]
	}
	return strings.Join(ls, "\n")
}

func sanitize(s string) string {
	var sb strings.Builder
	for _, r := range s {
		if r >= 'a' && r <= 'z' || r >= 'A' && r <= 'Z' || r >= '0' && r <= '9' || r == '.' || r == '_' {
			sb.WriteRune(r)
		} else {
			sb.WriteByte('_')
		}
	}
	return sb.String()
}
