// symgo: bounded symbolic execution of Go SSA with SMT-decided assertions.
package main

import (
	"runtime/debug"
	"runtime/pprof"
	"encoding/json"
	"flag"
	"fmt"
	"os"
	"sort"
	"strings"
	"time"

	"symgo/sym"
)

func main() {
	debug.SetGCPercent(800)
	if len(os.Args) < 2 {
		fmt.Fprintln(os.Stderr, "usage: symgo run|check ...")
		os.Exit(2)
	}
	switch os.Args[1] {
	case "run":
		cmdRun(os.Args[2:])
	case "check":
		cmdCheck(os.Args[2:])
	default:
		fmt.Fprintln(os.Stderr, "unknown subcommand", os.Args[1])
		os.Exit(2)
	}
}

var defaultPatterns = []string{
	"github.com/aukilabs/hagall/websocket",
	"github.com/aukilabs/hagall/models",
	"github.com/aukilabs/hagall/receipt",
	"github.com/aukilabs/hagall/http",
	"github.com/aukilabs/hagall/featureflag",
	"github.com/aukilabs/hagall/modules/...",
	"github.com/aukilabs/hagall/internal/verifnd",
}

func loadProgram(repo, harness string) (*sym.Program, map[string]*ssaPkg, error) {
	p, pk, err := sym.Load(&sym.LoadConfig{Repo: repo, HarnessDir: harness, Patterns: defaultPatterns, Tags: "verif"})
	if err != nil {
		return nil, nil, err
	}
	p.InitPkgs["github.com/aukilabs/hagall-common/websocket"] = true
	p.RepoPrefix = "github.com/aukilabs/hagall/"
	p.NondetRange["(*github.com/aukilabs/hagall/models.SequentialIDGenerator).New"] = true
	p.NondetRange["(*github.com/aukilabs/hagall/models.SignedLatency).OnPing"] = true
	p.NondetRange["(*github.com/aukilabs/hagall-common/websocket.scheduler).HandleFrame"] = true
	return p, pk, nil
}

func cmdRun(args []string) {
	fs := flag.NewFlagSet("run", flag.ExitOnError)
	repo := fs.String("repo", "/repo", "repository root")
	harness := fs.String("harness", "/verif/harness", "harness overlay dir")
	pkg := fs.String("pkg", "github.com/aukilabs/hagall/websocket", "package of harness functions")
	fn := fs.String("fn", "", "harness function name(s), comma separated")
	tier := fs.String("tier", "quick", "quick|thorough")
	workers := fs.Int("workers", 16, "parallel workers")
	solver := fs.String("solver", "z3", "z3|z3-new|cvc5")
	timeout := fs.Int("timeout", 10000, "per-query timeout ms")
	maxPre := fs.Int("preempt", 1, "preemption bound in Par")
	race := fs.Bool("race", false, "race detection in Par")
	logdir := fs.String("logdir", "", "write SMT logs here")
	maxPaths := fs.Int("maxpaths", 0, "stop after this many paths")
	out := fs.String("out", "", "write JSON result")
	prof := fs.String("cpuprofile", "", "write CPU profile")
	fs.Parse(args)

	if *prof != "" {
		f, _ := os.Create(*prof)
		pprof.StartCPUProfile(f)
		defer pprof.StopCPUProfile()
	}
	t0 := time.Now()
	p, pkgs, err := loadProgram(*repo, *harness)
	if err != nil {
		fmt.Fprintln(os.Stderr, "LOAD ERROR:", err)
		os.Exit(2)
	}
	fmt.Fprintf(os.Stderr, "loaded in %.1fs\n", time.Since(t0).Seconds())
	sp := pkgs[*pkg]
	if sp == nil {
		fmt.Fprintln(os.Stderr, "no such package", *pkg)
		os.Exit(2)
	}
	var results []*sym.Result
	for _, name := range strings.Split(*fn, ",") {
		f := sp.Func(name)
		if f == nil {
			fmt.Fprintln(os.Stderr, "no such function", name)
			os.Exit(2)
		}
		eo := &sym.ExploreOpts{Workers: *workers, Solver: *solver, TimeoutMS: *timeout, MaxPaths: *maxPaths, LogDir: *logdir, Race: *race,
			Opts: &sym.Options{Tier: *tier, MaxPreempt: *maxPre}}
		r := sym.Explore(p, f, eo)
		results = append(results, r)
		printResult(r)
	}
	if *out != "" {
		b, _ := json.MarshalIndent(results, "", " ")
		os.WriteFile(*out, b, 0o644)
	}
}

func printResult(r *sym.Result) {
	fmt.Printf("== %s: paths=%d infeasible=%d forks=%d steps=%d asserts(checked=%d trivial=%d) implicit(checked=%d trivial=%d) queries=%d (sat=%d unsat=%d unknown=%d err=%d) solver=%.1fs wall=%.1fs truncated=%v\n",
		r.Harness, r.Paths, r.Infeasible, r.Stats.Forks, r.Stats.Steps, r.Stats.AssertsChecked, r.Stats.AssertsTrivial,
		r.Stats.ImplicitChecked, r.Stats.ImplicitTrivial, r.Queries, r.QSat, r.QUnsat, r.QUnknown, r.QErrors, r.SolverTime.Seconds(), r.Wall.Seconds(), r.Truncated)
	var rs []string
	for k := range r.Reached {
		rs = append(rs, k)
	}
	sort.Strings(rs)
	fmt.Printf("   reached: %v\n", rs)
	for _, e := range r.EngineErrors {
		fmt.Printf("   ENGINE-ERROR: %s\n", e)
	}
	for _, e := range r.Inconclusive {
		fmt.Printf("   INCONCLUSIVE: %s\n", e)
	}
	for _, v := range r.Violations {
		k := v.Kind + "|" + v.Label + "|" + strings.Join(v.Keys, ",")
		fmt.Printf("   CANDIDATE %s label=%s keys=%v x%d: %s @ %s\n", v.Kind, v.Label, v.Keys, r.ViolCount[k], v.Msg, v.Where)
	}
}
