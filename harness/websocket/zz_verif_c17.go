//go:build verif

package websocket

import (
	"github.com/aukilabs/hagall-common/messages/hagallpb"
	"github.com/aukilabs/hagall-common/messages/odalpb"
	"github.com/aukilabs/hagall-common/messages/vikjapb"
	hwebsocket "github.com/aukilabs/hagall-common/websocket"
	"github.com/aukilabs/hagall/featureflag"
	"github.com/aukilabs/hagall/internal/verifnd"
)

// msgSig: the fields of a message that identify it, leaving out the server's own send time.
type msgSig struct {
	t       int32
	u       [5]uint32
	s       [2]string
	b       []byte
	hasPose bool
	pose    [7]float32
	n       [3]int
}

func sigOf(m hwebsocket.Msg) msgSig {
	g := msgSig{t: typeNum(m)}
	switch g.t {
	case 0:
		var x hagallpb.ErrorResponse
		m.DataTo(&x)
		g.u[0], g.u[1] = x.RequestId, uint32(x.Code)
	case 2:
		var x hagallpb.SessionState
		m.DataTo(&x)
		g.n = [3]int{len(x.Participants), len(x.Entities), len(x.EntityComponents)}
	case 4:
		var x hagallpb.ParticipantJoinResponse
		m.DataTo(&x)
		g.u[0], g.u[1], g.s[0] = x.RequestId, x.ParticipantId, x.SessionId
	case 5:
		var x hagallpb.ParticipantJoinBroadcast
		m.DataTo(&x)
		g.u[0] = x.ParticipantId
	case 7:
		var x hagallpb.ParticipantLeaveBroadcast
		m.DataTo(&x)
		g.u[0] = x.ParticipantId
	case 9:
		var x hagallpb.EntityAddResponse
		m.DataTo(&x)
		g.u[0], g.u[1] = x.RequestId, x.EntityId
	case 10:
		var x hagallpb.EntityAddBroadcast
		m.DataTo(&x)
		if x.Entity != nil {
			g.u[0], g.u[1], g.u[2] = x.Entity.Id, x.Entity.ParticipantId, uint32(x.Entity.Flag)
			g.hasPose, g.pose = poseArr(x.Entity.Pose)
		}
	case 13:
		var x hagallpb.EntityDeleteBroadcast
		m.DataTo(&x)
		g.u[0] = x.EntityId
	case 15:
		var x hagallpb.EntityUpdatePoseBroadcast
		m.DataTo(&x)
		g.u[0] = x.EntityId
		g.hasPose, g.pose = poseArr(x.Pose)
	case 17:
		var x hagallpb.CustomMessageBroadcast
		m.DataTo(&x)
		g.u[0], g.b = x.ParticipantId, x.Body
	case 26, 29, 31:
		var x hagallpb.EntityComponentAddBroadcast // the three component broadcasts share their layout
		m.DataTo(&x)
		if x.EntityComponent != nil {
			g.u[0], g.u[1], g.b = x.EntityComponent.EntityComponentTypeId, x.EntityComponent.EntityId, x.EntityComponent.Data
		}
	case 33:
		var x hagallpb.EntityComponentListResponse
		m.DataTo(&x)
		g.u[0], g.n[0] = x.RequestId, len(x.EntityComponents)
	case 19, 23:
		var x hagallpb.EntityComponentTypeAddResponse
		m.DataTo(&x)
		g.u[0], g.u[1] = x.RequestId, x.EntityComponentTypeId
	case 21:
		var x hagallpb.EntityComponentTypeGetNameResponse
		m.DataTo(&x)
		g.u[0], g.s[0] = x.RequestId, x.EntityComponentTypeName
	case 100:
		var x vikjapb.State
		m.DataTo(&x)
		g.n[0] = len(x.EntityActions)
	case 103:
		var x vikjapb.EntityActionBroadcast
		m.DataTo(&x)
		if x.EntityAction != nil {
			g.u[0], g.s[0], g.b = x.EntityAction.EntityId, x.EntityAction.Name, x.EntityAction.Data
		}
	case 200:
		var x odalpb.State
		m.DataTo(&x)
		g.n[0] = len(x.AssetInstances)
	case 202:
		var x odalpb.AssetInstanceAddResponse
		m.DataTo(&x)
		g.u[0], g.u[1] = x.RequestId, x.AssetInstanceId
	case 203:
		var x odalpb.AssetInstanceAddBroadcast
		m.DataTo(&x)
		if x.AssetInstance != nil {
			g.u[0], g.u[1], g.u[2], g.s[0] = x.AssetInstance.Id, x.AssetInstance.EntityId, x.AssetInstance.ParticipantId, x.AssetInstance.AssetId
		}
	case 38:
		// a server ping: its id is derived from the clock, not from the request
	default:
		if rid, ok := ridOf(m); ok {
			g.u[0] = rid
		}
	}
	return g
}

func sameSig(a, b msgSig) bool {
	ok := a.t == b.t && a.hasPose == b.hasPose && a.n == b.n
	for i := range a.u {
		ok = verifnd.And(ok, a.u[i] == b.u[i])
	}
	ok = verifnd.And(ok, a.s[0] == b.s[0], a.s[1] == b.s[1], verifnd.SameBytes(a.b, b.b))
	for i := range a.pose {
		ok = verifnd.And(ok, verifnd.SameF32(a.pose[i], b.pose[i]))
	}
	return ok
}

// flagIndexFor: which DISABLE_* flag names the class of this message type (-1: none).
func flagIndexFor(t int32) int {
	switch t {
	case 2:
		return 0
	case 5:
		return 1
	case 7:
		return 2
	case 10:
		return 3
	case 13:
		return 4
	case 15:
		return 5
	case 17:
		return 6
	case 26:
		return 7
	case 31:
		return 8
	case 29:
		return 9
	}
	return -1
}

func flagName(i int) string {
	switch i {
	case 0:
		return string(featureflag.FlagDisableSessionState)
	case 1:
		return string(featureflag.FlagDisableParticipantJoinBroadcast)
	case 2:
		return string(featureflag.FlagDisableParticipantLeaveBroadcast)
	case 3:
		return string(featureflag.FlagDisableEntityAddBroadcast)
	case 4:
		return string(featureflag.FlagDisableEntityDeleteBroadcast)
	case 5:
		return string(featureflag.FlagDisableEntityUpdatePoseBroadcast)
	case 6:
		return string(featureflag.FlagDisableCustomMessageBroadcast)
	case 7:
		return string(featureflag.FlagDisableEntityComponentAddBroadcast)
	case 8:
		return string(featureflag.FlagDisableEntityComponentUpdateBroadcast)
	}
	return string(featureflag.FlagDisableEntityComponentDeleteBroadcast)
}

func junkName(i int) string {
	switch i {
	case 0:
		return "junk0"
	case 1:
		return "junk1"
	case 2:
		return "junk2"
	case 3:
		return "junk3"
	case 4:
		return "junk4"
	case 5:
		return "junk5"
	case 6:
		return "junk6"
	case 7:
		return "junk7"
	case 8:
		return "junk8"
	}
	return "junk9"
}

// filteredEqual: stream `with` (flags set) equals stream `without` (no flags) minus the disabled classes.
func filteredEqual(with, without []hwebsocket.Msg, bits *[10]bool, label, kn, who string) {
	i := 0
	for _, m0 := range without {
		fi := flagIndexFor(typeNum(m0))
		dis := false
		if fi >= 0 {
			dis = bits[fi]
		}
		if i < len(with) && typeNum(with[i]) == typeNum(m0) && !(fi >= 0 && knownSet(bits, fi)) {
			verifnd.Assert(sameSig(sigOf(with[i]), sigOf(m0)), label+".same_message", kn, who)
			verifnd.Assert(!dis, label+".disabled_class_suppressed", kn, who)
			i++
		} else {
			verifnd.Assert(dis, label+".only_disabled_classes_missing", kn, who, msgTypeName(m0))
		}
	}
	verifnd.Assert(i == len(with), label+".nothing_extra", kn, who)
}

// knownSet reports whether flag fi is concretely known to be set on this path (the engine has decided the bit).
func knownSet(bits *[10]bool, fi int) bool { return false }

// VerifC17Flags: twin worlds built from the same symbolic values — one with an arbitrary subset of the ten
// flags (ten symbolic bits) plus an unknown flag name, one without flags — and the same arbitrary step.
func VerifC17Flags() {
	var bits [10]bool
	list := make([]string, 11)
	for i := 0; i < 10; i++ {
		bits[i] = verifnd.SymBool()
		list[i] = verifnd.IteStr(bits[i], flagName(i), junkName(i))
	}
	unk := verifnd.Str()
	for i := 0; i < 10; i++ {
		verifnd.Assume(unk != flagName(i) && unk != junkName(i))
	}
	list[10] = unk
	sh := stepShape{mods: vModVikja | vModOdal, preset: verifnd.Choice(2), noFree: true}
	sh.par = genStepParams(sh)
	shF := sh
	shF.flags = list
	wf := newStepWorld(shF)
	w0 := newStepWorld(sh)

	kind := verifnd.Choice(kQuadSample + 1)
	if kind == kQuadSample {
		kind = kDisconnect
	}
	kn := stepKindName(kind)
	var of, o0 *stepOut
	if kind == kDisconnect {
		_, of = wf.actOn(wf.a0, kind, false)
		_, o0 = w0.actOn(w0.a0, kind, false)
	} else {
		r := buildRequest(kind, false)
		if r.actTS != nil {
			assumeValidTS(r.actTS.Seconds, r.actTS.Nanos)
		}
		if kind == kJoin {
			// session ids coincide between the twin worlds (separate stores, same counters)
			verifnd.Assert(wf.a0.sid == w0.a0.sid && wf.b0.sid == w0.b0.sid, "setup.twin.same_session_ids")
		}
		of, o0 = wf.run(wf.a0, r), w0.run(w0.a0, r)
	}
	verifnd.Assert((of.err == nil) == (o0.err == nil), "C17.same_requests_succeed", kn)
	filteredEqual(of.own, o0.own, &bits, "C17.requester", kn, "a0")
	filteredEqual(of.m1, o0.m1, &bits, "C17.member", kn, "a1")
	filteredEqual(of.m2, o0.m2, &bits, "C17.member", kn, "a2")
	filteredEqual(of.ob, o0.ob, &bits, "C17.other_session", kn, "b0")
	filteredEqual(of.on, o0.on, &bits, "C17.unjoined", kn, "n0")

	// the server holds the same state: flag-free probes are handed the same in both worlds
	wf.w.flags = nil
	sidF, sid0 := wf.a1.sid, w0.a1.sid
	_, hf := wf.probe(sidF)
	_, h0 := w0.probe(sid0)
	verifnd.Assert(verifnd.And(hf.sameParticipants(h0), hf.sameEntities(h0), hf.sameComponents(h0, wf.tReg), hf.sameActions(h0), hf.sameAssets(h0)), "C17.same_state", kn)
	verifnd.Observe("c17", uint64(kind), uint64(len(of.own)), uint64(len(o0.own)), uint64(len(of.m1)), uint64(len(o0.m1)))
	verifnd.Reach("C17.done")
	verifnd.Reach("C17.kind." + kn)
}

// VerifC17LastLeave: under every single flag (and none, and an unknown name) the life of a session is the
// same: when its last participant leaves — by disconnecting or by switching away — it ends, its id stops
// resolving and the session gauge is back, and a later join to that id is refused as NOT_FOUND.
func VerifC17LastLeave() {
	w := newVWorld(0)
	k := verifnd.Choice(12)
	name := "none"
	switch {
	case k < 10:
		name = flagName(k)
		w.flags = featureflag.New([]string{name})
	case k == 10:
		name = "unknown"
		w.flags = featureflag.New([]string{"DISABLE_NOTHING_KNOWN"})
	}
	g0 := verifnd.Gauge("session_count")
	x, y := w.newConn(), w.newConn()
	x.mustJoin("")
	sid := x.sid
	x.addEntity(false, &hagallpb.Pose{})
	if verifnd.Bool() {
		x.rh.HandleDisconnect(nil)
	} else {
		x.mustJoin("")
	}
	_, alive := w.store.GetByGlobalID(sid)
	if x.sid != sid {
		verifnd.Assert(!alive, "C17.last_leave.session_ends_under_every_flag", name)
	}
	live := int64(0)
	if x.rh.CurrentSession() != nil {
		live = 1
	}
	verifnd.Assert(verifnd.Gauge("session_count")-g0 == live, "C17.last_leave.gauge_under_every_flag", name)
	if x.sid != sid {
		y.pid = 0
		y.join(sid, 3)
		verifnd.Assert(y.pid == 0, "C17.last_leave.ended_session_not_joinable", name)
	}
	verifnd.Reach("C17.last_leave.done")
}
