//go:build verif

package websocket

import (
	"github.com/aukilabs/hagall-common/messages/hagallpb"
	"github.com/aukilabs/hagall-common/messages/odalpb"
	"github.com/aukilabs/hagall-common/messages/vikjapb"
	"github.com/aukilabs/hagall/internal/verifnd"
)

// VerifC16Action: an action request with arbitrary (entity, name, timestamp) from any member against a
// stored action with an arbitrary timestamp: older -> refused and nothing changes; equal or newer ->
// replaces it, relayed once to the others, handed to newcomers.
func VerifC16Action() {
	s := newStepWorld(stepShape{mods: vModVikja | vModOdal, preset: verifnd.Choice(2), prior: verifnd.Bool()})
	if s.hasAction {
		assumeValidTS(s.actSec, s.actNanos)
	}
	p1, view := s.probe(s.a0.sid)
	s.w.drainAll()
	if verifnd.Bool() {
		// a refused request in between (a member that does not own it asks to delete a0's entity) leaves the
		// actions and assets alone
		s.a1.do(&hagallpb.EntityDeleteRequest{Type: hagallpb.MsgType_MSG_TYPE_ENTITY_DELETE_REQUEST, Timestamp: vts(), RequestId: 41, EntityId: s.eOwn})
		s.a1.drain()
	}
	conns := []*vConn{s.a0, s.a1, s.a2}
	ai := verifnd.Choice(3)
	actor := conns[ai]
	r := buildRequest(kAction, true)
	if r.actTS != nil {
		assumeValidTS(r.actTS.Seconds, r.actTS.Nanos)
	}
	err := actor.do(r.msg)
	verifnd.Assert(err == nil, "C16.action.noerror")
	own := actor.drain()
	nOK := countType(own, hagallpb.MsgType(vikjapb.MsgType_MSG_TYPE_VIKJA_ENTITY_ACTION_RESPONSE))
	nErr := countType(own, hagallpb.MsgType_MSG_TYPE_ERROR_RESPONSE)
	verifnd.Assert(nOK+nErr == 1 && len(own) == 1, "C16.action.one_answer")

	var accept bool
	if !r.hasSub || !r.hasSub2 {
		accept = false
	} else {
		exists := verifnd.Or(r.eid == s.eOwn, r.eid == s.eOther, r.eid == s.ePers)
		olderOwn := verifnd.And(r.eid == s.eOwn, r.name == "act", s.hasAction, tsBefore(r.actTS.Seconds, r.actTS.Nanos, s.actSec, s.actNanos))
		olderPers := verifnd.And(verifnd.Or(r.eid == s.ePers, r.eid == s.eOther), r.name == "act", s.hasAction, tsBefore(r.actTS.Seconds, r.actTS.Nanos, 1, 1))
		accept = verifnd.And(exists, r.name != "", !olderOwn, !olderPers)
	}
	verifnd.Assert(verifnd.Iff(accept, nOK == 1), "C16.action.accepted_iff_not_older", memberName(ai))

	// relays: every other member exactly once iff accepted
	for i, c := range conns {
		if c == actor {
			continue
		}
		got := c.drain()
		n := countType(got, hagallpb.MsgType(vikjapb.MsgType_MSG_TYPE_VIKJA_ENTITY_ACTION_BROADCAST))
		verifnd.Assert(len(got) == n && verifnd.Iff(accept, n == 1), "C16.action.relayed_once_iff_accepted", memberName(i))
	}
	for _, m := range p1.drain() {
		verifnd.Assert(view.apply(m, 0), "C16.action.broadcast_applicable")
	}
	_, handed := s.probe(s.a0.sid)
	for _, m := range p1.drain() {
		view.apply(m, 0)
	}
	verifnd.Assert(view.sameActions(handed), "C16.action.newcomer_handed_current_set")
	if nOK == 1 {
		j := handed.actIdx(r.eid, r.name)
		verifnd.Assert(j >= 0, "C16.action.stored")
		if j >= 0 {
			a := handed.acts[j]
			verifnd.Assert(verifnd.And(a.hasTS, a.sec == r.actTS.Seconds, a.nanos == r.actTS.Nanos, verifnd.SameBytes(a.data, r.data)), "C16.action.latest_wins")
		}
	} else if s.hasAction {
		// refused: the stored action is untouched
		j := handed.actIdx(s.eOwn, "act")
		verifnd.Assert(j >= 0, "C16.action.refused_keeps_stored")
		if j >= 0 {
			a := handed.acts[j]
			verifnd.Assert(verifnd.And(a.sec == s.actSec, a.nanos == s.actNanos), "C16.action.refused_keeps_stored")
		}
	}
	// at most one action per (entity, name)
	for i, a := range handed.acts {
		for j := i + 1; j < len(handed.acts); j++ {
			verifnd.Assert(!(a.eid == handed.acts[j].eid && a.name == handed.acts[j].name), "C16.action.one_per_entity_and_name")
		}
	}
	verifnd.Observe("c16a", uint64(ai), uint64(nOK), uint64(nErr), uint64(len(handed.acts)))
	verifnd.Reach("C16.action.done")
}

// VerifC16Asset: an asset add by any member for an arbitrary entity id.
func VerifC16Asset() {
	s := newStepWorld(stepShape{mods: vModVikja | vModOdal, preset: verifnd.Choice(2), prior: verifnd.Bool()})
	p1, view := s.probe(s.a0.sid)
	s.w.drainAll()
	if verifnd.Bool() {
		// a refused request in between (a member that does not own it asks to delete a0's entity) leaves the
		// actions and assets alone
		s.a1.do(&hagallpb.EntityDeleteRequest{Type: hagallpb.MsgType_MSG_TYPE_ENTITY_DELETE_REQUEST, Timestamp: vts(), RequestId: 41, EntityId: s.eOwn})
		s.a1.drain()
	}
	var oldID uint32
	if j := view.assetIdx(s.eOwn); j >= 0 {
		oldID = view.assets[j].id
	}
	conns := []*vConn{s.a0, s.a1, s.a2}
	ai := verifnd.Choice(3)
	actor := conns[ai]
	r := buildRequest(kAssetAdd, false)
	err := actor.do(r.msg)
	verifnd.Assert(err == nil, "C16.asset.noerror")
	own := actor.drain()
	nOK := countType(own, hagallpb.MsgType(odalpb.MsgType_MSG_TYPE_ODAL_ASSET_INSTANCE_ADD_RESPONSE))
	verifnd.Assert(len(own) == 1, "C16.asset.one_answer")
	owns := verifnd.Or(verifnd.And(ai == 0, r.eid == s.eOwn), verifnd.And(ai == 1, r.eid == s.eOther))
	verifnd.Assert(verifnd.Iff(verifnd.And(owns, r.name != ""), nOK == 1), "C16.asset.accepted_iff_owner_and_asset_named", memberName(ai))
	var newID uint32
	if nOK == 1 {
		var resp odalpb.AssetInstanceAddResponse
		for _, m := range own {
			m.DataTo(&resp)
		}
		newID = resp.AssetInstanceId
		verifnd.Assert(newID != 0 && newID != oldID, "C16.asset.fresh_instance_id")
	}
	for i, c := range conns {
		if c == actor {
			continue
		}
		got := c.drain()
		n := countType(got, hagallpb.MsgType(odalpb.MsgType_MSG_TYPE_ODAL_ASSET_INSTANCE_ADD_BROADCAST))
		verifnd.Assert(len(got) == n && verifnd.Iff(nOK == 1, n == 1), "C16.asset.relayed_once_iff_accepted", memberName(i))
	}
	for _, m := range p1.drain() {
		verifnd.Assert(view.apply(m, 0), "C16.asset.broadcast_applicable")
	}
	_, handed := s.probe(s.a0.sid)
	for _, m := range p1.drain() {
		view.apply(m, 0)
	}
	verifnd.Assert(view.sameAssets(handed), "C16.asset.newcomer_handed_current_set")
	// an entity carries at most one asset instance; after an accepted add it is the new one
	for i, a := range handed.assets {
		for j := i + 1; j < len(handed.assets); j++ {
			verifnd.Assert(a.eid != handed.assets[j].eid && a.id != handed.assets[j].id, "C16.asset.at_most_one_per_entity_unique_ids")
		}
		verifnd.Assert(handed.entIdx(a.eid) >= 0, "C16.asset.only_on_existing_entities")
	}
	if nOK == 1 {
		j := handed.assetIdx(r.eid)
		verifnd.Assert(j >= 0, "C16.asset.stored")
		if j >= 0 {
			verifnd.Assert(verifnd.And(handed.assets[j].id == newID, handed.assets[j].assetID == r.name, handed.assets[j].pid == actor.pid), "C16.asset.most_recent_kept")
		}
	}
	verifnd.Observe("c16b", uint64(ai), uint64(nOK), uint64(len(handed.assets)))
	verifnd.Reach("C16.asset.done")
}
