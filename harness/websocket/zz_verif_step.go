//go:build verif

package websocket

import (
	"github.com/aukilabs/hagall-common/messages/dagazpb"
	"github.com/aukilabs/hagall-common/messages/hagallpb"
	"github.com/aukilabs/hagall-common/messages/odalpb"
	"github.com/aukilabs/hagall-common/messages/vikjapb"
	hwebsocket "github.com/aukilabs/hagall-common/websocket"
	"github.com/aukilabs/hagall/featureflag"
	"github.com/aukilabs/hagall/internal/verifnd"
	"google.golang.org/protobuf/types/known/timestamppb"
)

// Request kinds (Appendix A of DESIGN.md).
const (
	kPing = iota
	kPingResponse
	kSignedLatency
	kJoin
	kEntityAdd
	kEntityDelete
	kUpdatePose
	kCustom
	kTypeAdd
	kTypeGetName
	kTypeGetID
	kCompAdd
	kCompDelete
	kCompUpdate
	kCompList
	kSubscribe
	kUnsubscribe
	kReceipt
	kAction
	kAssetAdd
	kQuadSample
	kGetGroundPlane
	kGetRegion
	kGetDebugInfo
	numKinds
)

// kindName: a switch, not a table — package-level variables of the harness package are not initialised under the engine.
func kindName(k int) string {
	switch k {
	case 0:
		return "ping"
	case 1:
		return "ping_response"
	case 2:
		return "signed_latency"
	case 3:
		return "join"
	case 4:
		return "entity_add"
	case 5:
		return "entity_delete"
	case 6:
		return "update_pose"
	case 7:
		return "custom"
	case 8:
		return "type_add"
	case 9:
		return "type_get_name"
	case 10:
		return "type_get_id"
	case 11:
		return "comp_add"
	case 12:
		return "comp_delete"
	case 13:
		return "comp_update"
	case 14:
		return "comp_list"
	case 15:
		return "subscribe"
	case 16:
		return "unsubscribe"
	case 17:
		return "receipt"
	case 18:
		return "action"
	case 19:
		return "asset_add"
	case 20:
		return "quad_sample"
	case 21:
		return "get_ground_plane"
	case 22:
		return "get_region"
	case 23:
		return "get_debug_info"
	}
	return "?"
}

const vTypeName = "t1"

// stepWorld: session A = {a0 (actor), a1, a2}, session B = {b0}, unjoined n0; entities in A:
// eOwn (a0's), eOther (a1's), ePers (persistent, owner departed); one registered component type.
type stepWorld struct {
	w                   *vWorld
	a0, a1, a2, b0, n0  *vConn
	eOwn, eOther, ePers uint32
	dPid                uint32 // participant id of the departed owner of ePers
	tReg                uint32 // registered component type id
	ownPersist          bool   // Persist flag of eOwn (symbolic)
	compOwn, compOther  bool   // component (tReg, eOwn) / (tReg, eOther) present
	compPers            bool
	sub0, sub1, sub2    bool // a0/a1/a2 subscribed to tReg
	hasAction           bool // vikja action "act" on eOwn
	hasAsset            bool // odal asset on eOwn
	actSec              int64
	actNanos            int32
	poseOwn             [7]float32
}

func vts() *timestamppb.Timestamp { return &timestamppb.Timestamp{Seconds: 1, Nanos: 1} }

func symPose() *hagallpb.Pose {
	return &hagallpb.Pose{Px: verifnd.F32(), Py: verifnd.F32(), Pz: verifnd.F32(), Rx: verifnd.F32(), Ry: verifnd.F32(), Rz: verifnd.F32(), Rw: verifnd.F32()}
}

// addEntity creates an entity through the real request path and returns its id.
func (c *vConn) addEntity(persist bool, pose *hagallpb.Pose) uint32 {
	err := c.do(&hagallpb.EntityAddRequest{Type: hagallpb.MsgType_MSG_TYPE_ENTITY_ADD_REQUEST, Timestamp: vts(), RequestId: 7, Persist: persist, Pose: pose})
	verifnd.Assert(err == nil, "setup.entity_add.noerror")
	var id uint32
	for _, m := range c.drain() {
		if isType(m, hagallpb.MsgType_MSG_TYPE_ENTITY_ADD_RESPONSE) {
			var r hagallpb.EntityAddResponse
			if m.DataTo(&r) == nil {
				id = r.EntityId
			}
		}
	}
	verifnd.Assert(id != 0, "setup.entity_add.succeeds")
	return id
}

func (c *vConn) expectOne(req hwebsocket.ProtoMsg, t hagallpb.MsgType, label string) hwebsocket.Msg {
	err := c.do(req)
	verifnd.Assert(err == nil, label+".noerror")
	msgs := c.drain()
	n := 0
	var out hwebsocket.Msg
	for _, m := range msgs {
		if isType(m, t) {
			n++
			out = m
		}
	}
	verifnd.Assert(n == 1, label+".succeeds")
	return out
}

// stepShape selects the pre-state: which presence bits are free choices, or a fixed preset.
type stepShape struct {
	freeBits bool // all presence bits chosen by Bool()
	preset   int  // when !freeBits: 0 = everything present (maximal interaction), 1 = no components/actions/assets but subscribers, 2 = components but no subscribers
	mods     int
	noFree   bool     // keep the preset also in the thorough tier (harnesses whose oracle assumes the preset)
	symIDs   bool     // participant, entity and component-type ids start from arbitrary (symbolic) counters per session
	rejoin   bool     // a0 was a member, had a switch refused and/or left for a session of its own, and joined again
	prior    bool     // a0 and a1 each come from a session of their own where they used the operations on an entity of theirs
	flags    []string // feature flags of the world
	par      *stepParams
}

// stepParams holds every symbolic value the pre-state is built from, so that twin worlds share them.
type stepParams struct {
	posePers, poseB, poseOwn, poseOther   *hagallpb.Pose
	ownPersist                            bool
	dataOwn, dataOther, dataPers, actData []byte
	actSec                                int64
	actNanos                              int32
	bits                                  [8]bool
}

func genStepParams(sh stepShape) *stepParams {
	p := &stepParams{posePers: symPose(), poseB: symPose(), poseOwn: symPose(), poseOther: symPose(), ownPersist: verifnd.SymBool(),
		dataOwn: verifnd.Bytes(64), dataOther: verifnd.Bytes(64), dataPers: verifnd.Bytes(64), actData: verifnd.Bytes(16),
		actSec: verifnd.I64(), actNanos: verifnd.I32()}
	// bits: sub0 sub1 sub2 compOwn compOther compPers hasAction hasAsset
	preset := [3][8]bool{
		{true, true, false, true, true, true, true, true},
		{true, true, false, false, false, false, false, false},
		{false, false, false, true, true, true, true, true},
	}
	for i := range p.bits {
		if sh.freeBits {
			p.bits[i] = verifnd.Bool()
		} else {
			p.bits[i] = preset[sh.preset][i]
		}
	}
	return p
}

func newStepWorld(sh stepShape) *stepWorld {
	if verifnd.Tier() == 1 && !sh.noFree && !sh.prior {
		// thorough tier: every presence bit of the pre-state is a free choice (all 2^8 combinations); the worlds
		// with prior-session histories keep the presets (both dimensions at once double an hour-long run)
		sh.freeBits = true
	}
	par := sh.par
	if par == nil {
		par = genStepParams(sh)
	}
	s := &stepWorld{w: newVWorld(sh.mods)}
	w := s.w
	if len(sh.flags) > 0 {
		w.flags = featureflag.New(sh.flags)
	}
	s.a0, s.a1, s.a2, s.b0, s.n0 = w.newConn(), w.newConn(), w.newConn(), w.newConn(), w.newConn()
	d := w.newConn()
	if sh.prior {
		// a0's connection has a history too: a session of its own in which it used every kind of operation on an
		// entity of its own (whatever a connection, a module object or a handler caches per connection was
		// filled there); leaving it ends that session, and the session created next may take over its id
		s.a0.mustJoin("")
		pe := s.a0.addEntity(true, &hagallpb.Pose{})
		s.a0.do(&hagallpb.EntityUpdatePose{Type: hagallpb.MsgType_MSG_TYPE_ENTITY_UPDATE_POSE, Timestamp: vts(), EntityId: pe, Pose: &hagallpb.Pose{Px: -3}})
		if sh.mods&vModVikja != 0 {
			s.a0.do(&vikjapb.EntityActionRequest{Type: vikjapb.MsgType_MSG_TYPE_VIKJA_ENTITY_ACTION_REQUEST, Timestamp: vts(), RequestId: 23,
				EntityAction: &vikjapb.EntityAction{EntityId: pe, Name: "prior", Timestamp: vts()}})
		}
		if sh.mods&vModOdal != 0 {
			s.a0.do(&odalpb.AssetInstanceAddRequest{Type: odalpb.MsgType_MSG_TYPE_ODAL_ASSET_INSTANCE_ADD_REQUEST, Timestamp: vts(), RequestId: 24, EntityId: pe, AssetId: "prior-asset"})
		}
		pm := s.a0.expectOne(&hagallpb.EntityComponentTypeAddRequest{Type: hagallpb.MsgType_MSG_TYPE_ENTITY_COMPONENT_TYPE_ADD_REQUEST, Timestamp: vts(), RequestId: 25, EntityComponentTypeName: "prior-type"},
			hagallpb.MsgType_MSG_TYPE_ENTITY_COMPONENT_TYPE_ADD_RESPONSE, "setup.prior.type_add")
		var ptr hagallpb.EntityComponentTypeAddResponse
		pm.DataTo(&ptr)
		s.a0.do(&hagallpb.EntityComponentAddRequest{Type: hagallpb.MsgType_MSG_TYPE_ENTITY_COMPONENT_ADD_REQUEST, Timestamp: vts(), RequestId: 26, EntityComponentTypeId: ptr.EntityComponentTypeId, EntityId: pe, Data: []byte{9}})
		s.a0.do(&hagallpb.EntityComponentTypeSubscribeRequest{Type: hagallpb.MsgType_MSG_TYPE_ENTITY_COMPONENT_TYPE_SUBSCRIBE_REQUEST, Timestamp: vts(), RequestId: 27, EntityComponentTypeId: ptr.EntityComponentTypeId})
		s.a0.drain()
	}
	s.a0.mustJoin("")
	if sh.symIDs {
		symbolicCounters(s.a0)
	}
	if sh.prior && sh.mods != 0 {
		// a1's connection (and its per-connection module objects) has a history in another session
		s.a1.mustJoin("")
		pe := s.a1.addEntity(true, &hagallpb.Pose{})
		if sh.mods&vModVikja != 0 {
			s.a1.do(&vikjapb.EntityActionRequest{Type: vikjapb.MsgType_MSG_TYPE_VIKJA_ENTITY_ACTION_REQUEST, Timestamp: vts(), RequestId: 21,
				EntityAction: &vikjapb.EntityAction{EntityId: pe, Name: "prior", Timestamp: vts()}})
		}
		if sh.mods&vModOdal != 0 {
			s.a1.do(&odalpb.AssetInstanceAddRequest{Type: odalpb.MsgType_MSG_TYPE_ODAL_ASSET_INSTANCE_ADD_REQUEST, Timestamp: vts(), RequestId: 22, EntityId: pe, AssetId: "prior-asset"})
		}
		s.a1.drain()
	}
	s.a1.mustJoin(s.a0.sid)
	if sh.rejoin {
		// a0 has a switch to an unknown session refused, then leaves by switching to a session of its own,
		// and comes back
		sid := s.a0.sid
		s.a0.pid = 0
		s.a0.join("no-such-session", 2)
		verifnd.Assert(s.a0.pid == 0, "setup.rejoin.refused")
		if verifnd.Bool() {
			s.a0.mustJoin("")
		}
		s.a0.pid = 0
		s.a0.join(sid, 2)
		if s.a0.pid == 0 {
			// still a member (the refused switch did not make it leave): re-joining is refused; nothing to set up
			s.a0.pid = 1
			s.a0.sid = sid
		}
	}
	d.mustJoin(s.a0.sid)
	s.dPid = d.pid
	s.ePers = d.addEntity(true, par.posePers)
	s.a2.mustJoin(s.a0.sid)
	s.b0.mustJoin("")
	if sh.symIDs {
		symbolicCounters(s.b0) // independent of A's: the solver decides whether ids coincide across sessions
	}
	s.b0.addEntity(false, par.poseB) // session B re-uses the same numeric ids
	s.ownPersist = par.ownPersist
	op := par.poseOwn
	s.poseOwn = [7]float32{op.Px, op.Py, op.Pz, op.Rx, op.Ry, op.Rz, op.Rw}
	s.eOwn = s.a0.addEntity(s.ownPersist, op)
	s.eOther = s.a1.addEntity(false, par.poseOther)

	// component type and components
	m := s.a1.expectOne(&hagallpb.EntityComponentTypeAddRequest{Type: hagallpb.MsgType_MSG_TYPE_ENTITY_COMPONENT_TYPE_ADD_REQUEST, Timestamp: vts(), RequestId: 8, EntityComponentTypeName: vTypeName},
		hagallpb.MsgType_MSG_TYPE_ENTITY_COMPONENT_TYPE_ADD_RESPONSE, "setup.type_add")
	var tr hagallpb.EntityComponentTypeAddResponse
	m.DataTo(&tr)
	s.tReg = tr.EntityComponentTypeId
	verifnd.Assert(s.tReg != 0, "setup.type_add.id")
	s.b0.expectOne(&hagallpb.EntityComponentTypeAddRequest{Type: hagallpb.MsgType_MSG_TYPE_ENTITY_COMPONENT_TYPE_ADD_REQUEST, Timestamp: vts(), RequestId: 8, EntityComponentTypeName: "other"},
		hagallpb.MsgType_MSG_TYPE_ENTITY_COMPONENT_TYPE_ADD_RESPONSE, "setup.type_add_b")

	s.sub0, s.sub1, s.sub2 = par.bits[0], par.bits[1], par.bits[2]
	if s.sub0 {
		s.a0.expectSubscribe(s.tReg)
	}
	if s.sub1 {
		s.a1.expectSubscribe(s.tReg)
	}
	if s.sub2 {
		s.a2.expectSubscribe(s.tReg)
	}
	addComp := func(c *vConn, eid uint32, data []byte) {
		c.expectOne(&hagallpb.EntityComponentAddRequest{Type: hagallpb.MsgType_MSG_TYPE_ENTITY_COMPONENT_ADD_REQUEST, Timestamp: vts(), RequestId: 10, EntityComponentTypeId: s.tReg, EntityId: eid, Data: data},
			hagallpb.MsgType_MSG_TYPE_ENTITY_COMPONENT_ADD_RESPONSE, "setup.comp_add")
	}
	s.compOwn, s.compOther, s.compPers = par.bits[3], par.bits[4], par.bits[5]
	if s.compOwn {
		addComp(s.a0, s.eOwn, par.dataOwn)
	}
	if s.compOther {
		addComp(s.a1, s.eOther, par.dataOther)
	}
	if s.compPers {
		addComp(s.a2, s.ePers, par.dataPers)
	}
	if sh.mods&vModVikja != 0 {
		s.hasAction = par.bits[6]
		if s.hasAction {
			s.actSec, s.actNanos = par.actSec, par.actNanos
			s.a0.expectOne(&vikjapb.EntityActionRequest{Type: vikjapb.MsgType_MSG_TYPE_VIKJA_ENTITY_ACTION_REQUEST, Timestamp: vts(), RequestId: 11,
				EntityAction: &vikjapb.EntityAction{EntityId: s.eOwn, Name: "act", Timestamp: &timestamppb.Timestamp{Seconds: s.actSec, Nanos: s.actNanos}, Data: par.actData}},
				hagallpb.MsgType(vikjapb.MsgType_MSG_TYPE_VIKJA_ENTITY_ACTION_RESPONSE), "setup.action")
			// a persistent entity's action, set by someone who is not its owner
			s.a2.expectOne(&vikjapb.EntityActionRequest{Type: vikjapb.MsgType_MSG_TYPE_VIKJA_ENTITY_ACTION_REQUEST, Timestamp: vts(), RequestId: 11,
				EntityAction: &vikjapb.EntityAction{EntityId: s.ePers, Name: "act", Timestamp: vts(), Data: nil}},
				hagallpb.MsgType(vikjapb.MsgType_MSG_TYPE_VIKJA_ENTITY_ACTION_RESPONSE), "setup.action_pers")
			// and one on the other member's entity
			s.a1.expectOne(&vikjapb.EntityActionRequest{Type: vikjapb.MsgType_MSG_TYPE_VIKJA_ENTITY_ACTION_REQUEST, Timestamp: vts(), RequestId: 11,
				EntityAction: &vikjapb.EntityAction{EntityId: s.eOther, Name: "act", Timestamp: vts(), Data: nil}},
				hagallpb.MsgType(vikjapb.MsgType_MSG_TYPE_VIKJA_ENTITY_ACTION_RESPONSE), "setup.action_other")
		}
	}
	if sh.mods&vModOdal != 0 {
		s.hasAsset = par.bits[7]
		if s.hasAsset {
			s.a0.expectOne(&odalpb.AssetInstanceAddRequest{Type: odalpb.MsgType_MSG_TYPE_ODAL_ASSET_INSTANCE_ADD_REQUEST, Timestamp: vts(), RequestId: 12, EntityId: s.eOwn, AssetId: "asset0"},
				hagallpb.MsgType(odalpb.MsgType_MSG_TYPE_ODAL_ASSET_INSTANCE_ADD_RESPONSE), "setup.asset")
			// the other member's entity carries an asset too
			s.a1.expectOne(&odalpb.AssetInstanceAddRequest{Type: odalpb.MsgType_MSG_TYPE_ODAL_ASSET_INSTANCE_ADD_REQUEST, Timestamp: vts(), RequestId: 12, EntityId: s.eOther, AssetId: "asset1"},
				hagallpb.MsgType(odalpb.MsgType_MSG_TYPE_ODAL_ASSET_INSTANCE_ADD_RESPONSE), "setup.asset_other")
		}
	}
	// the owner of ePers departs
	d.rh.HandleDisconnect(nil)
	w.drainAll()
	return s
}

// stepReq is one arbitrary request with its symbolic fields exposed to the oracles.
type stepReq struct {
	kind     int
	msg      hwebsocket.ProtoMsg
	rid      uint32
	ots      *timestamppb.Timestamp // origin timestamp of the request
	eid      uint32                 // entity id named by the request (if any)
	tid      uint32                 // component type id named (if any)
	name     string                 // type name / action name / asset id / wallet / session id
	data     []byte
	hasPose  bool
	pose     *hagallpb.Pose
	persist  bool
	flag     hagallpb.EntityFlag
	iter     uint32
	ids      []uint32
	hasSub   bool // optional sub-message present (EntityAction, Ray, Min...)
	hasSub2  bool
	actTS    *timestamppb.Timestamp
	receiptH []byte
	receiptS []byte
}

func symTS() *timestamppb.Timestamp {
	return &timestamppb.Timestamp{Seconds: verifnd.I64(), Nanos: verifnd.I32()}
}

func symPoint() *dagazpb.Point {
	return &dagazpb.Point{X: verifnd.F32(), Y: verifnd.F32(), Z: verifnd.F32()}
}

// buildRequest returns an arbitrary request of the given kind: every field symbolic, optional sub-messages nil or present.
func buildRequest(kind int, allowNilSub bool) *stepReq {
	r := &stepReq{kind: kind, rid: verifnd.U32(), ots: symTS()}
	optional := func() bool {
		if allowNilSub {
			return verifnd.Bool()
		}
		return true
	}
	switch kind {
	case kPing:
		r.msg = &hagallpb.Request{Type: hagallpb.MsgType_MSG_TYPE_PING_REQUEST, Timestamp: r.ots, RequestId: r.rid}
	case kPingResponse:
		r.msg = &hagallpb.Response{Type: hagallpb.MsgType_MSG_TYPE_PING_RESPONSE, Timestamp: r.ots, RequestId: r.rid}
	case kSignedLatency:
		r.iter, r.name = verifnd.U32(), verifnd.Str()
		r.msg = &hagallpb.SignedLatencyRequest{Type: hagallpb.MsgType_MSG_TYPE_SIGNED_LATENCY_REQUEST, Timestamp: r.ots, RequestId: r.rid, IterationCount: r.iter, WalletAddress: r.name}
	case kJoin:
		r.name = verifnd.Str()
		r.msg = &hagallpb.ParticipantJoinRequest{Type: hagallpb.MsgType_MSG_TYPE_PARTICIPANT_JOIN_REQUEST, Timestamp: r.ots, RequestId: r.rid, SessionId: r.name}
	case kEntityAdd:
		r.hasPose = optional()
		if r.hasPose {
			r.pose = symPose()
		}
		r.persist, r.flag = verifnd.SymBool(), hagallpb.EntityFlag(verifnd.I32())
		r.msg = &hagallpb.EntityAddRequest{Type: hagallpb.MsgType_MSG_TYPE_ENTITY_ADD_REQUEST, Timestamp: r.ots, RequestId: r.rid, Pose: r.pose, Persist: r.persist, Flag: r.flag}
	case kEntityDelete:
		r.eid = verifnd.U32()
		r.msg = &hagallpb.EntityDeleteRequest{Type: hagallpb.MsgType_MSG_TYPE_ENTITY_DELETE_REQUEST, Timestamp: r.ots, RequestId: r.rid, EntityId: r.eid}
	case kUpdatePose:
		r.eid = verifnd.U32()
		r.hasPose = optional()
		if r.hasPose {
			r.pose = symPose()
		}
		r.msg = &hagallpb.EntityUpdatePose{Type: hagallpb.MsgType_MSG_TYPE_ENTITY_UPDATE_POSE, Timestamp: r.ots, EntityId: r.eid, Pose: r.pose}
	case kCustom:
		n := verifnd.Choice(3)
		r.ids = make([]uint32, n)
		for i := range r.ids {
			r.ids[i] = verifnd.U32()
		}
		r.data = verifnd.Bytes(1 << 20)
		r.msg = &hagallpb.CustomMessage{Type: hagallpb.MsgType_MSG_TYPE_CUSTOM_MESSAGE, Timestamp: r.ots, ParticipantIds: r.ids, Body: r.data}
	case kTypeAdd:
		r.name = verifnd.Str()
		r.msg = &hagallpb.EntityComponentTypeAddRequest{Type: hagallpb.MsgType_MSG_TYPE_ENTITY_COMPONENT_TYPE_ADD_REQUEST, Timestamp: r.ots, RequestId: r.rid, EntityComponentTypeName: r.name}
	case kTypeGetName:
		r.tid = verifnd.U32()
		r.msg = &hagallpb.EntityComponentTypeGetNameRequest{Type: hagallpb.MsgType_MSG_TYPE_ENTITY_COMPONENT_TYPE_GET_NAME_REQUEST, Timestamp: r.ots, RequestId: r.rid, EntityComponentTypeId: r.tid}
	case kTypeGetID:
		r.name = verifnd.Str()
		r.msg = &hagallpb.EntityComponentTypeGetIdRequest{Type: hagallpb.MsgType_MSG_TYPE_ENTITY_COMPONENT_TYPE_GET_ID_REQUEST, Timestamp: r.ots, RequestId: r.rid, EntityComponentTypeName: r.name}
	case kCompAdd:
		r.tid, r.eid, r.data = verifnd.U32(), verifnd.U32(), verifnd.Bytes(1<<20)
		r.msg = &hagallpb.EntityComponentAddRequest{Type: hagallpb.MsgType_MSG_TYPE_ENTITY_COMPONENT_ADD_REQUEST, Timestamp: r.ots, RequestId: r.rid, EntityComponentTypeId: r.tid, EntityId: r.eid, Data: r.data}
	case kCompDelete:
		r.tid, r.eid = verifnd.U32(), verifnd.U32()
		r.msg = &hagallpb.EntityComponentDeleteRequest{Type: hagallpb.MsgType_MSG_TYPE_ENTITY_COMPONENT_DELETE_REQUEST, Timestamp: r.ots, RequestId: r.rid, EntityComponentTypeId: r.tid, EntityId: r.eid}
	case kCompUpdate:
		r.tid, r.eid, r.data = verifnd.U32(), verifnd.U32(), verifnd.Bytes(1<<20)
		r.msg = &hagallpb.EntityComponentUpdate{Type: hagallpb.MsgType_MSG_TYPE_ENTITY_COMPONENT_UPDATE, Timestamp: r.ots, EntityComponentTypeId: r.tid, EntityId: r.eid, Data: r.data}
	case kCompList:
		r.tid = verifnd.U32()
		r.msg = &hagallpb.EntityComponentListRequest{Type: hagallpb.MsgType_MSG_TYPE_ENTITY_COMPONENT_LIST_REQUEST, Timestamp: r.ots, RequestId: r.rid, EntityComponentTypeId: r.tid}
	case kSubscribe:
		r.tid = verifnd.U32()
		r.msg = &hagallpb.EntityComponentTypeSubscribeRequest{Type: hagallpb.MsgType_MSG_TYPE_ENTITY_COMPONENT_TYPE_SUBSCRIBE_REQUEST, Timestamp: r.ots, RequestId: r.rid, EntityComponentTypeId: r.tid}
	case kUnsubscribe:
		r.tid = verifnd.U32()
		r.msg = &hagallpb.EntityComponentTypeUnsubscribeRequest{Type: hagallpb.MsgType_MSG_TYPE_ENTITY_COMPONENT_TYPE_UNSUBSCRIBE_REQUEST, Timestamp: r.ots, RequestId: r.rid, EntityComponentTypeId: r.tid}
	case kReceipt:
		r.name, r.receiptH, r.receiptS = verifnd.Str(), verifnd.Bytes(64), verifnd.Bytes(128)
		r.msg = &hagallpb.ReceiptRequest{Type: hagallpb.MsgType_MSG_TYPE_RECEIPT_REQUEST, Timestamp: r.ots, RequestId: r.rid, Receipt: r.name, Hash: r.receiptH, Signature: r.receiptS}
	case kAction:
		r.hasSub = optional()
		var ea *vikjapb.EntityAction
		if r.hasSub {
			r.eid, r.name, r.data = verifnd.U32(), verifnd.Str(), verifnd.Bytes(1<<16)
			r.hasSub2 = optional()
			if r.hasSub2 {
				r.actTS = symTS()
			}
			ea = &vikjapb.EntityAction{EntityId: r.eid, Name: r.name, Timestamp: r.actTS, Data: r.data}
		}
		r.msg = &vikjapb.EntityActionRequest{Type: vikjapb.MsgType_MSG_TYPE_VIKJA_ENTITY_ACTION_REQUEST, Timestamp: r.ots, RequestId: r.rid, EntityAction: ea}
	case kAssetAdd:
		r.eid, r.name = verifnd.U32(), verifnd.Str()
		r.msg = &odalpb.AssetInstanceAddRequest{Type: odalpb.MsgType_MSG_TYPE_ODAL_ASSET_INSTANCE_ADD_REQUEST, Timestamp: r.ots, RequestId: r.rid, EntityId: r.eid, AssetId: r.name}
	case kQuadSample:
		n := verifnd.Choice(3)
		qs := make([]*dagazpb.Quad, n)
		for i := range qs {
			q := &dagazpb.Quad{MergeCount: verifnd.U32()}
			if optional() {
				q.Center = symPoint()
			}
			if optional() {
				q.Extents = symPoint()
			}
			qs[i] = q
		}
		r.msg = &dagazpb.DagazQuadSample{Type: dagazpb.MsgType_MSG_TYPE_DAGAZ_QUAD_SAMPLE, Timestamp: r.ots, Samples: qs}
	case kGetGroundPlane:
		var ray *dagazpb.Ray
		r.hasSub = optional()
		if r.hasSub {
			ray = &dagazpb.Ray{}
			if optional() {
				ray.From = symPoint()
			}
			if optional() {
				ray.To = symPoint()
			}
		}
		r.msg = &dagazpb.DagazGetGroundPlaneRequest{Type: dagazpb.MsgType_MSG_TYPE_DAGAZ_GET_GROUND_PLANE_REQUEST, Timestamp: r.ots, RequestId: r.rid, Ray: ray}
	case kGetRegion:
		q := &dagazpb.DagazGetRegionRequest{Type: dagazpb.MsgType_MSG_TYPE_DAGAZ_GET_REGION_REQUEST, Timestamp: r.ots, RequestId: r.rid}
		if optional() {
			q.Min = symPoint()
		}
		if optional() {
			q.Max = symPoint()
		}
		r.msg = q
	case kGetDebugInfo:
		r.msg = &dagazpb.DagazGetDebugInfoRequest{Type: dagazpb.MsgType_MSG_TYPE_DAGAZ_GET_DEBUG_INFO_REQUEST, RequestId: r.rid}
	default:
		panic("unknown kind")
	}
	return r
}

// stepOut is everything observable after the step.
type stepOut struct {
	err                 error
	own, m1, m2, ob, on []hwebsocket.Msg
}

func (s *stepWorld) run(actor *vConn, r *stepReq) *stepOut {
	o := &stepOut{}
	o.err = actor.do(r.msg)
	o.own, o.m1, o.m2 = s.a0.drain(), s.a1.drain(), s.a2.drain()
	o.ob, o.on = s.b0.drain(), s.n0.drain()
	return o
}

// typeNum returns the numeric message type (core and module enums share the number space).
func typeNum(m hwebsocket.Msg) int32 {
	if m.Type == nil {
		return -1
	}
	return int32(m.Type.Number())
}

func decodeError(m hwebsocket.Msg) (rid uint32, code hagallpb.ErrorCode, ok bool) {
	if typeNum(m) != int32(hagallpb.MsgType_MSG_TYPE_ERROR_RESPONSE) {
		return 0, 0, false
	}
	var e hagallpb.ErrorResponse
	if m.DataTo(&e) != nil {
		return 0, 0, false
	}
	return e.RequestId, e.Code, true
}

// ridOf extracts the request id echoed by a response of any type (all responses carry it as field 3).
func ridOf(m hwebsocket.Msg) (uint32, bool) {
	var r hagallpb.Response
	if m.DataTo(&r) != nil {
		return 0, false
	}
	return r.RequestId, true
}

func (c *vConn) expectSubscribe(tid uint32) {
	c.expectOne(&hagallpb.EntityComponentTypeSubscribeRequest{Type: hagallpb.MsgType_MSG_TYPE_ENTITY_COMPONENT_TYPE_SUBSCRIBE_REQUEST, Timestamp: vts(), RequestId: 9, EntityComponentTypeId: tid},
		hagallpb.MsgType_MSG_TYPE_ENTITY_COMPONENT_TYPE_SUBSCRIBE_RESPONSE, "setup.subscribe")
}

// symbolicCounters moves the id counters of c's current session to arbitrary values (far from wrap-around), so
// that every id issued afterwards is a symbolic term rather than 1, 2, 3.
func symbolicCounters(c *vConn) {
	sess := c.rh.CurrentSession()
	for _, path := range []string{"participantIDs.currentID", "entityIDs.currentID", "entityComponents.ids.currentID"} {
		base := verifnd.U32()
		verifnd.Assume(verifnd.And(base >= 1, base < 0xFFFFFF00))
		verifnd.PokeU32(sess, path, base)
	}
}
