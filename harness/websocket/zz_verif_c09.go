//go:build verif

package websocket

import (
	"context"
	nethttp "net/http"
	"time"

	"github.com/aukilabs/hagall-common/messages/dagazpb"
	"github.com/aukilabs/hagall-common/messages/hagallpb"
	"github.com/aukilabs/hagall-common/messages/odalpb"
	"github.com/aukilabs/hagall-common/messages/vikjapb"
	hwebsocket "github.com/aukilabs/hagall-common/websocket"
	"github.com/aukilabs/hagall/internal/verifnd"
)

// c09Request builds the i-th request of the concurrency menu for connection c (concrete targets: the
// quantifier of C09 is the schedule, not the field values).
func (s *stepWorld) c09Request(c *vConn, own uint32, k int) (hwebsocket.ProtoMsg, string) {
	switch k {
	case 0:
		return &hagallpb.EntityAddRequest{Type: hagallpb.MsgType_MSG_TYPE_ENTITY_ADD_REQUEST, Timestamp: vts(), RequestId: 1, Pose: &hagallpb.Pose{}}, "entity_add"
	case 1:
		return &hagallpb.EntityDeleteRequest{Type: hagallpb.MsgType_MSG_TYPE_ENTITY_DELETE_REQUEST, Timestamp: vts(), RequestId: 1, EntityId: own}, "entity_delete"
	case 2:
		return &hagallpb.EntityUpdatePose{Type: hagallpb.MsgType_MSG_TYPE_ENTITY_UPDATE_POSE, Timestamp: vts(), EntityId: own, Pose: &hagallpb.Pose{Px: 1}}, "update_pose"
	case 3:
		return &hagallpb.CustomMessage{Type: hagallpb.MsgType_MSG_TYPE_CUSTOM_MESSAGE, Timestamp: vts(), ParticipantIds: []uint32{s.a0.pid, s.a1.pid, s.a2.pid}, Body: []byte("x")}, "custom_targeted"
	case 4:
		return &hagallpb.EntityComponentUpdate{Type: hagallpb.MsgType_MSG_TYPE_ENTITY_COMPONENT_UPDATE, Timestamp: vts(), EntityComponentTypeId: s.tReg, EntityId: own, Data: []byte("d")}, "comp_update"
	case 5:
		return &hagallpb.EntityComponentDeleteRequest{Type: hagallpb.MsgType_MSG_TYPE_ENTITY_COMPONENT_DELETE_REQUEST, Timestamp: vts(), RequestId: 1, EntityComponentTypeId: s.tReg, EntityId: own}, "comp_delete"
	case 6:
		return &hagallpb.EntityComponentTypeSubscribeRequest{Type: hagallpb.MsgType_MSG_TYPE_ENTITY_COMPONENT_TYPE_SUBSCRIBE_REQUEST, Timestamp: vts(), RequestId: 1, EntityComponentTypeId: s.tReg}, "subscribe"
	case 7:
		return &hagallpb.EntityComponentTypeAddRequest{Type: hagallpb.MsgType_MSG_TYPE_ENTITY_COMPONENT_TYPE_ADD_REQUEST, Timestamp: vts(), RequestId: 1, EntityComponentTypeName: "t2"}, "type_add"
	case 8:
		return &vikjapb.EntityActionRequest{Type: vikjapb.MsgType_MSG_TYPE_VIKJA_ENTITY_ACTION_REQUEST, Timestamp: vts(), RequestId: 1, EntityAction: &vikjapb.EntityAction{EntityId: own, Name: "act9", Timestamp: vts()}}, "action"
	case 9:
		return &odalpb.AssetInstanceAddRequest{Type: odalpb.MsgType_MSG_TYPE_ODAL_ASSET_INSTANCE_ADD_REQUEST, Timestamp: vts(), RequestId: 1, EntityId: own, AssetId: "a"}, "asset_add"
	case 10:
		return &hagallpb.ParticipantJoinRequest{Type: hagallpb.MsgType_MSG_TYPE_PARTICIPANT_JOIN_REQUEST, Timestamp: vts(), RequestId: 1, SessionId: ""}, "switch_new"
	case 11:
		return &hagallpb.EntityComponentListRequest{Type: hagallpb.MsgType_MSG_TYPE_ENTITY_COMPONENT_LIST_REQUEST, Timestamp: vts(), RequestId: 1, EntityComponentTypeId: s.tReg}, "comp_list"
	}
	return nil, "disconnect"
}

const c09Menu = 13

// VerifC09Requests: two (thorough: three) members of one session issue requests concurrently; every
// interleaving at lock granularity within the preemption bound: no data race, every request completes.
func VerifC09Requests() {
	s := newStepWorld(stepShape{mods: vModVikja | vModOdal, preset: 0, noFree: true})
	k0 := verifnd.Choice(c09Menu)
	k1 := verifnd.Choice(c09Menu)
	if k1 < k0 {
		return // unordered pairs
	}
	r0, n0 := s.c09Request(s.a0, s.eOwn, k0)
	r1, n1 := s.c09Request(s.a1, s.eOther, k1)
	run := func(c *vConn, r hwebsocket.ProtoMsg) func() {
		return func() {
			if r == nil {
				c.rh.HandleDisconnect(nil)
				return
			}
			c.do(r)
		}
	}
	if verifnd.Tier() == 1 && verifnd.Bool() {
		// a third party joins meanwhile: three threads with one preemption (with two, this harness ran for more
		// than two hours without finishing); the two-thread block below runs with two in the thorough tier
		verifnd.Preempt(1)
		p := s.w.newConn()
		verifnd.Par(run(s.a0, r0), run(s.a1, r1), func() { p.join(s.a2.sid, 9) })
	} else {
		verifnd.Par(run(s.a0, r0), run(s.a1, r1))
	}
	verifnd.Reach("C09.requests.done")
	verifnd.Reach("C09.req." + n0)
	_ = n1
}

// VerifC09JoinLeave: a join / a departure / a frame tick concurrent with a member's request.
func VerifC09JoinLeave() {
	s := newStepWorld(stepShape{mods: vModVikja | vModOdal, preset: 0, noFree: true})
	k := verifnd.Choice(c09Menu - 1)
	r, _ := s.c09Request(s.a0, s.eOwn, k)
	req := func() { s.a0.do(r) }
	p := s.w.newConn()
	switch verifnd.Choice(3) {
	case 0:
		verifnd.Par(req, func() { p.join(s.a1.sid, 9) })
	case 1:
		verifnd.Par(req, func() { s.a2.rh.HandleDisconnect(nil) })
	case 2:
		verifnd.Par(req, func() { s.a1.rh.HandleDisconnect(nil) })
	}
	verifnd.Reach("C09.joinleave.done")
}

// vLogInner is the handler the logging decorator wraps in VerifC09Logs: the real RealtimeHandler with the
// two socket-facing closures replaced (the harness has no socket).
type vLogInner struct {
	*RealtimeHandler
}

func (v vLogInner) Receiver() hwebsocket.Receiver {
	return func() (hwebsocket.Msg, int, error) {
		m, _ := hwebsocket.MsgFromProto(&hagallpb.Request{Type: hagallpb.MsgType_MSG_TYPE_PING_REQUEST, Timestamp: vts()})
		return m, 1, nil
	}
}

func (v vLogInner) Sender() hwebsocket.Sender {
	return func(hwebsocket.Msg) (int, error) { return 1, nil }
}

// VerifC09Logs: the production logging decorator: the main loop handles a join while the receiver and
// sender goroutines and the summary worker run.
func VerifC09Logs() {
	w := newVWorld(0)
	c := w.newConn()
	dec := HandlerWithLogs(vLogInner{c.rh}, time.Hour).(*handlerWithLogs)
	dec.originalRequest = &nethttp.Request{Header: nethttp.Header{}}
	recv := dec.Receiver()
	send := dec.Sender()
	msg, _ := hwebsocket.MsgFromProto(&hagallpb.ParticipantJoinRequest{Type: hagallpb.MsgType_MSG_TYPE_PARTICIPANT_JOIN_REQUEST, Timestamp: vts(), RequestId: 1})
	ping, _ := hwebsocket.MsgFromProto(&hagallpb.Request{Type: hagallpb.MsgType_MSG_TYPE_PING_REQUEST, Timestamp: vts()})
	join := func() { dec.HandleParticipantJoin(context.Background(), func() {}, c.resp, msg) }
	switch verifnd.Choice(3) {
	case 0:
		verifnd.Par(join, func() { recv() })
	case 1:
		verifnd.Par(join, func() { send(ping) })
	case 2:
		dec.incCounter("x")
		verifnd.Par(join, func() { dec.logSummary() })
	}
	dec.closeSummaryWorker()
	verifnd.Reach("C09.logs.done")
}

// VerifC09Dagaz: two members of one session send ground-plane samples concurrently.
func VerifC09Dagaz() {
	w := newVWorld(vModDagaz)
	x, y := w.newConn(), w.newConn()
	x.mustJoin("")
	y.mustJoin(x.sid)
	w.drainAll()
	q := func(cx float32) *dagazpb.DagazQuadSample {
		return &dagazpb.DagazQuadSample{Type: dagazpb.MsgType_MSG_TYPE_DAGAZ_QUAD_SAMPLE, Timestamp: vts(),
			Samples: []*dagazpb.Quad{{Center: &dagazpb.Point{X: cx, Y: 0, Z: 0.5}, Extents: &dagazpb.Point{X: 0.25, Y: 0, Z: 0.25}}}}
	}
	verifnd.Par(func() { x.do(q(0.5)) }, func() { y.do(q(5.5)) })
	verifnd.Reach("C09.dagaz.done")
}

// VerifC09Init: the creator of a session is still inside its join while a second connection joins the
// new session by its (predictable) id: module state creation is check-then-set.
func VerifC09Init() {
	w := newVWorld(vModVikja | vModOdal)
	x, y := w.newConn(), w.newConn()
	// learn the id the next session will get, then let it end
	x.mustJoin("")
	sid := x.sid
	x.rh.HandleDisconnect(nil)
	w.drainAll()
	x.pid, y.pid = 0, 0
	verifnd.Par(func() { x.join("", 1) }, func() { y.join(sid, 2) })
	verifnd.Assert(x.pid != 0, "setup.init.creator_joined")
	if y.pid != 0 && y.sid == x.sid {
		// both are members of the new session: they must share one module state, i.e. what either of them
		// stores is handed to a newcomer
		w.drainAll()
		ex := x.addEntity(false, &hagallpb.Pose{})
		ey := y.addEntity(false, &hagallpb.Pose{})
		x.expectOne(&vikjapb.EntityActionRequest{Type: vikjapb.MsgType_MSG_TYPE_VIKJA_ENTITY_ACTION_REQUEST, Timestamp: vts(), RequestId: 1, EntityAction: &vikjapb.EntityAction{EntityId: ex, Name: "a", Timestamp: vts()}},
			hagallpb.MsgType(vikjapb.MsgType_MSG_TYPE_VIKJA_ENTITY_ACTION_RESPONSE), "setup.init.action_x")
		y.expectOne(&vikjapb.EntityActionRequest{Type: vikjapb.MsgType_MSG_TYPE_VIKJA_ENTITY_ACTION_REQUEST, Timestamp: vts(), RequestId: 1, EntityAction: &vikjapb.EntityAction{EntityId: ey, Name: "a", Timestamp: vts()}},
			hagallpb.MsgType(vikjapb.MsgType_MSG_TYPE_VIKJA_ENTITY_ACTION_RESPONSE), "setup.init.action_y")
		z := w.newConn()
		handed := viewFromJoin(z.join(x.sid, 3))
		verifnd.Assert(handed.actIdx(ex, "a") >= 0 && handed.actIdx(ey, "a") >= 0, "C09.init.module_state_shared")
	}
	verifnd.Reach("C09.init.done")
}
