//go:build verif

package websocket

import (
	"github.com/aukilabs/hagall-common/messages/hagallpb"
	"github.com/aukilabs/hagall-common/ncsclient"
	"github.com/aukilabs/hagall/internal/verifnd"
)

// VerifC19Submit: submissions against a queue that is empty, almost full or full; the submitter gets
// exactly one answer (accepted / bad request / too busy), is never blocked, and an accepted receipt sits
// in the queue unchanged, exactly once.
func VerifC19Submit() {
	w := newVWorld(0)
	c := w.newConn()
	joined := verifnd.Bool()
	if joined {
		c.mustJoin("")
		c.drain()
	}
	fill := []int{0, 126, 127, 128}[verifnd.Choice(4)]
	for i := 0; i < fill; i++ {
		w.receipt <- ncsclient.ReceiptPayload{Receipt: "filler"}
	}
	n := 1 + verifnd.Choice(2)
	for k := 0; k < n; k++ {
		before := len(w.receipt)
		text, hash, sig := verifnd.Str(), verifnd.Bytes(64), verifnd.Bytes(128)
		rid := verifnd.U32()
		err := c.do(&hagallpb.ReceiptRequest{Type: hagallpb.MsgType_MSG_TYPE_RECEIPT_REQUEST, Timestamp: vts(), RequestId: rid, Receipt: text, Hash: hash, Signature: sig})
		got := c.drain()
		empty := verifnd.Or(text == "", len(hash) == 0, len(sig) == 0)
		full := before == 128
		verifnd.Assert(len(got) == 1, "C19.submit.exactly_one_answer")
		if len(got) != 1 {
			return
		}
		if _, code, ok := decodeError(got[0]); ok {
			verifnd.Assert(verifnd.Or(empty, full), "C19.submit.error_only_when_empty_or_full")
			verifnd.Assert(verifnd.Iff(empty, code == codeBad), "C19.submit.bad_request_iff_empty_field")
			verifnd.Assert(verifnd.Implies(!empty, code == codeBusy), "C19.submit.too_busy_iff_full")
			verifnd.Assert(len(w.receipt) == before, "C19.submit.refused_not_enqueued")
		} else {
			verifnd.Assert(isType(got[0], hagallpb.MsgType_MSG_TYPE_RECEIPT_RESPONSE), "C19.submit.accepted_answer")
			verifnd.Assert(verifnd.And(!empty, !full), "C19.submit.accepted_only_when_well_formed_and_room")
			verifnd.Assert(len(w.receipt) == before+1, "C19.submit.enqueued_once")
			verifnd.Assert(err == nil, "C19.submit.accepted_keeps_connection")
		}
		rid2, ok := ridOf(got[0])
		verifnd.Assert(ok && rid2 == rid, "C19.submit.echoes_request_id")
		if len(w.receipt) == before+1 {
			// the enqueued payload is the submitted one: drain to the last element
			var last ncsclient.ReceiptPayload
			m := len(w.receipt)
			for i := 0; i < m; i++ {
				last = <-w.receipt
				if i < m-1 {
					w.receipt <- last
				}
			}
			verifnd.Assert(verifnd.And(last.Receipt == text, verifnd.SameBytes(last.Hash, hash), verifnd.SameBytes(last.Signature, sig)), "C19.submit.enqueued_unchanged")
			w.receipt <- last
		}
		verifnd.Observe("c19s", uint64(fill), uint64(k), uint64(typeNum(got[0])))
	}
	verifnd.Reach("C19.submit.done")
}
