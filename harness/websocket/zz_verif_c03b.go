//go:build verif

package websocket

import (
	"github.com/aukilabs/hagall-common/messages/hagallpb"
	"github.com/aukilabs/hagall-common/messages/odalpb"
	"github.com/aukilabs/hagall-common/messages/vikjapb"
	"github.com/aukilabs/hagall/internal/verifnd"
)

// VerifC03Rebind: the last member of a session leaves it by creating a session of its own; the old session
// ends and the new one may carry its short id. Whatever the old session held (entities, a component, a
// vikja action, an odal asset) never shows in the new one: the connection's own join snapshot is empty,
// an arbitrary request it sends afterwards is served by the new session (its members get the broadcasts)
// and a later joiner is handed exactly what those broadcasts built.
func VerifC03Rebind() {
	w := newVWorld(vModVikja | vModOdal)
	x, y := w.newConn(), w.newConn()
	x.mustJoin("")
	oldSid, oldUUID := x.sid, x.uuid
	e := x.addEntity(true, symPose())
	x.do(&odalpb.AssetInstanceAddRequest{Type: odalpb.MsgType_MSG_TYPE_ODAL_ASSET_INSTANCE_ADD_REQUEST, Timestamp: vts(), RequestId: 2, EntityId: e, AssetId: "old-asset"})
	x.do(&vikjapb.EntityActionRequest{Type: vikjapb.MsgType_MSG_TYPE_VIKJA_ENTITY_ACTION_REQUEST, Timestamp: vts(), RequestId: 3,
		EntityAction: &vikjapb.EntityAction{EntityId: e, Name: "old-action", Timestamp: vts(), Data: []byte{1}}})
	tm := x.expectOne(&hagallpb.EntityComponentTypeAddRequest{Type: hagallpb.MsgType_MSG_TYPE_ENTITY_COMPONENT_TYPE_ADD_REQUEST, Timestamp: vts(), RequestId: 4, EntityComponentTypeName: "old-type"},
		hagallpb.MsgType_MSG_TYPE_ENTITY_COMPONENT_TYPE_ADD_RESPONSE, "setup.rebind.type")
	var tr hagallpb.EntityComponentTypeAddResponse
	tm.DataTo(&tr)
	x.do(&hagallpb.EntityComponentAddRequest{Type: hagallpb.MsgType_MSG_TYPE_ENTITY_COMPONENT_ADD_REQUEST, Timestamp: vts(), RequestId: 5, EntityComponentTypeId: tr.EntityComponentTypeId, EntityId: e, Data: []byte{7}})
	w.drainAll()

	own := viewFromJoin(x.join("", 6))
	verifnd.Assert(x.pid != 0, "setup.rebind.joined")
	verifnd.Assert(x.uuid != oldUUID, "C03.rebind.new_uuid")
	verifnd.Assert(len(own.ents) == 0 && len(own.comps) == 0 && len(own.acts) == 0 && len(own.assets) == 0, "C03.rebind.own_snapshot_empty")
	verifnd.Assert(own.gotSession == 1 && own.gotVikja == 1 && own.gotOdal == 1, "C03.rebind.own_snapshot_complete")
	if x.sid == oldSid {
		verifnd.Reach("C03.rebind.id_reused")
	}
	ref := viewFromJoin(y.join(x.sid, 7))
	verifnd.Assert(y.pid != 0, "setup.rebind.y_joined")
	verifnd.Assert(len(ref.ents) == 0 && len(ref.comps) == 0 && len(ref.acts) == 0 && len(ref.assets) == 0, "C03.rebind.member_snapshot_empty")
	w.drainAll()

	// the connection goes on in the new session: a new entity, then one arbitrary request
	e2 := x.addEntity(false, symPose())
	got := y.drain()
	verifnd.Assert(countType(got, hagallpb.MsgType_MSG_TYPE_ENTITY_ADD_BROADCAST) == 1, "C03.rebind.entity_add_reaches_new_session")
	for _, m := range got {
		verifnd.Assert(ref.apply(m, 0), "C03.rebind.broadcast_applicable", "entity_add")
	}
	kind := verifnd.Choice(kQuadSample)
	kn := kindName(kind)
	r := buildRequest(kind, false)
	if r.actTS != nil {
		assumeValidTS(r.actTS.Seconds, r.actTS.Nanos)
	}
	if kind == kJoin {
		verifnd.Assume(false) // leaving again is the first half of this harness
	}
	x.do(r.msg)
	resp := x.drain()
	refused := false
	for _, m := range resp {
		if _, _, isErr := decodeError(m); isErr {
			refused = true
		}
	}
	got = y.drain()
	for _, m := range got {
		verifnd.Assert(ref.apply(m, 0), "C03.rebind.broadcast_applicable", kn)
	}
	// requests that change shared state on an entity of the new session are announced to its members
	if !refused && r.eid == e2 {
		switch kind {
		case kAssetAdd:
			verifnd.Assert(countType(got, hagallpb.MsgType(odalpb.MsgType_MSG_TYPE_ODAL_ASSET_INSTANCE_ADD_BROADCAST)) == 1, "C03.rebind.request_reaches_new_session", kn)
		case kAction:
			verifnd.Assert(countType(got, hagallpb.MsgType(vikjapb.MsgType_MSG_TYPE_VIKJA_ENTITY_ACTION_BROADCAST)) == 1, "C03.rebind.request_reaches_new_session", kn)
		case kEntityDelete:
			verifnd.Assert(countType(got, hagallpb.MsgType_MSG_TYPE_ENTITY_DELETE_BROADCAST) == 1, "C03.rebind.request_reaches_new_session", kn)
		}
	}
	_, handed := func() (*vConn, *vView) {
		p := w.newConn()
		return p, viewFromJoin(p.join(x.sid, 9))
	}()
	for _, m := range y.drain() {
		ref.apply(m, 0)
	}
	verifnd.Assert(ref.sameParticipants(handed), "C03.rebind.view.participants", kn)
	verifnd.Assert(ref.sameEntities(handed), "C03.rebind.view.entities", kn)
	verifnd.Assert(ref.sameActions(handed), "C03.rebind.view.actions", kn)
	verifnd.Assert(ref.sameAssets(handed), "C03.rebind.view.assets", kn)
	verifnd.Assert(len(handed.comps) == 0 || kind == kCompAdd, "C03.rebind.view.no_old_components", kn)
	verifnd.Reach("C03.rebind.done")
	verifnd.Reach("C03.rebind.kind." + kn)
}
