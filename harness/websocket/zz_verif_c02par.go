//go:build verif

package websocket

import (
	"github.com/aukilabs/hagall-common/messages/hagallpb"
	hwebsocket "github.com/aukilabs/hagall-common/websocket"
	"github.com/aukilabs/hagall/internal/verifnd"
)

// VerifC02Par: an accepted relaying request by a0 runs concurrently with a join, a departure or another
// member's request; every participant that is a member throughout the block receives a0's relay exactly once
// and a0 never receives it.
func VerifC02Par() {
	s := newStepWorld(stepShape{mods: vModVikja | vModOdal, preset: 0, noFree: true})
	menu := []int{0, 1, 3, 8, 9} // entity add, entity delete (own), targeted custom, action, asset add
	k := menu[verifnd.Choice(len(menu))]
	r, name := s.c09Request(s.a0, s.eOwn, k)
	rt := map[int]int32{0: 10, 1: 13, 3: 17, 8: 103, 9: 203}[k]
	p := s.w.newConn()
	var other func()
	leaver, stayer := s.a2, s.a1
	otherName := "join"
	switch verifnd.Choice(3) {
	case 0:
		other = func() { p.join(s.a1.sid, 9) }
	case 1:
		// the member that joined before a2, or a2 itself (the last one to have joined), departs
		otherName = "departure"
		if verifnd.Bool() {
			leaver, stayer = s.a1, s.a2
		}
		other = func() { leaver.rh.HandleDisconnect(nil) }
	case 2:
		otherName = "request"
		r2, _ := s.c09Request(s.a1, s.eOther, 0)
		other = func() { s.a1.do(r2) }
	}
	verifnd.Par(func() { s.a0.do(r) }, other)
	count := func(msgs []hwebsocket.Msg) int {
		n := 0
		for _, m := range msgs {
			if typeNum(m) == rt {
				if rt == 10 {
					// a1's own concurrent entity add is also relayed as type 10: count only a0's
					var b hagallpb.EntityAddBroadcast
					if m.DataTo(&b) == nil && b.Entity != nil && b.Entity.ParticipantId != s.a0.pid {
						continue
					}
				}
				if rt == 13 {
					// a departing member's own entities are deleted too (type 13 as well): count only a0's delete
					var b hagallpb.EntityDeleteBroadcast
					if m.DataTo(&b) == nil && b.EntityId != s.eOwn {
						continue
					}
				}
				n++
			}
		}
		return n
	}
	verifnd.Assert(count(s.a0.drain()) == 0, "C02.par.never_echoed", name, otherName)
	verifnd.Assert(count(stayer.drain()) == 1, "C02.par.member_throughout_gets_it_once", name, otherName)
	if otherName != "departure" {
		verifnd.Assert(count(leaver.drain()) == 1, "C02.par.member_throughout_gets_it_once", name, otherName)
	} else {
		verifnd.Assert(count(leaver.drain()) <= 1, "C02.par.at_most_once", name, otherName)
	}
	verifnd.Assert(count(p.drain()) <= 1, "C02.par.at_most_once", name, otherName)
	verifnd.Assert(len(s.b0.drain()) == 0, "C02.par.other_session_silent", name, otherName)
	verifnd.Reach("C02.par.done")
	verifnd.Reach("C02.par." + otherName)
}

// VerifC02FullQueue: a member whose outbound queue is full (its client has stopped reading for a while)
// still gets every relay exactly once when it reads again: the relay waits for room, it is never dropped.
func VerifC02FullQueue() {
	w := newVWorld(0)
	a, b, c := w.newConn(), w.newConn(), w.newConn()
	a.mustJoin("")
	b.mustJoin(a.sid)
	c.mustJoin(a.sid)
	w.drainAll()
	// b's queue is filled up to its capacity with traffic it has not read yet
	filler, _ := hwebsocket.MsgFromProto(&hagallpb.Response{Type: hagallpb.MsgType_MSG_TYPE_PING_RESPONSE, Timestamp: vts(), RequestId: 1})
	for len(b.h.sendChan) < cap(b.h.sendChan) {
		b.h.sendChan <- filler
	}
	done := make(chan struct{})
	go func() {
		a.do(&hagallpb.CustomMessage{Type: hagallpb.MsgType_MSG_TYPE_CUSTOM_MESSAGE, Timestamp: vts(), Body: []byte{42}})
		close(done)
	}()
	verifnd.Quiesce()
	// b reads again
	got := 0
	for i := 0; i < 3; i++ {
		for _, m := range b.drain() {
			if typeNum(m) == int32(hagallpb.MsgType_MSG_TYPE_CUSTOM_MESSAGE_BROADCAST) {
				got++
			}
		}
		verifnd.Quiesce()
	}
	<-done
	for _, m := range b.drain() {
		if typeNum(m) == int32(hagallpb.MsgType_MSG_TYPE_CUSTOM_MESSAGE_BROADCAST) {
			got++
		}
	}
	verifnd.Assert(got == 1, "C02.full_queue.relay_not_dropped")
	verifnd.Assert(countType(c.drain(), hagallpb.MsgType_MSG_TYPE_CUSTOM_MESSAGE_BROADCAST) == 1, "C02.full_queue.others_get_it_once")
	verifnd.Reach("C02.full_queue.done")
}
