//go:build verif

package websocket

import (
	"context"
	"net/http"
	"net/http/httptest"
	"os"
	"strings"
	"time"

	"github.com/aukilabs/go-tooling/pkg/errors"
	"github.com/aukilabs/hagall-common/messages/hagallpb"
	hwebsocket "github.com/aukilabs/hagall-common/websocket"
	"github.com/aukilabs/hagall/internal/verifnd"
	"golang.org/x/net/websocket"
)

const (
	vIdle = 1 * time.Second
	vSync = 11 * time.Second
)

// vLife is the innermost handler of the life-cycle harness: the real RealtimeHandler, with the socket-facing
// closures replaced by a scripted client and counters on the connect / disconnect callbacks.
type vLife struct {
	*RealtimeHandler
	script      chan hwebsocket.Msg // what the client sends
	closedByCli chan struct{}       // the client closes abruptly
	closedBySrv chan struct{}       // the server closed the connection (unblocks a pending read)
	disconnects int
	connects    int
	sendFails   bool
	slowPings   bool // handling a ping takes longer than the idle timeout
}

// HandlePing: with slowPings the handling of one message straddles an idle expiry (a busy server, a slow
// module, lock contention): the idle timer fires while the message is being handled and the next message
// of the client is already waiting.
func (v *vLife) HandlePing(ctx context.Context, respond hwebsocket.ResponseSender, msg hwebsocket.Msg) error {
	if v.slowPings {
		if verifnd.Symbolic() {
			verifnd.FireTickers(vIdle)
		} else {
			time.Sleep(vIdle + vIdle/2)
		}
	}
	return v.RealtimeHandler.HandlePing(ctx, respond, msg)
}

func (v *vLife) HandleConnect(conn *websocket.Conn) {
	v.connects++
	v.RealtimeHandler.HandleConnect(conn)
}

func (v *vLife) HandleDisconnect(err error) {
	if !verifnd.Symbolic() && os.Getenv("VERIF_DEBUG") != "" {
		println("DEBUG disconnect, script left", len(v.script), err.Error())
	}
	v.disconnects++
	if v.disconnects == 1 {
		close(v.closedBySrv)
	}
	v.RealtimeHandler.HandleDisconnect(err)
}

func (v *vLife) Receiver() hwebsocket.Receiver {
	return func() (hwebsocket.Msg, int, error) {
		select {
		case m := <-v.script:
			verifnd.Yield()
			return m, 1, nil
		default:
		}
		select {
		case m := <-v.script:
			return m, 1, nil
		case <-v.closedByCli:
			return hwebsocket.Msg{}, 0, errors.New("EOF")
		case <-v.closedBySrv:
			return hwebsocket.Msg{}, 0, errors.New("use of closed connection")
		}
	}
}

func (v *vLife) Sender() hwebsocket.Sender {
	return func(hwebsocket.Msg) (int, error) {
		if v.sendFails {
			return 0, errors.New("broken pipe")
		}
		return 1, nil
	}
}

func (v *vLife) SyncClockInterval() time.Duration { return vSync }
func (v *vLife) IdleTimeout() time.Duration       { return vIdle }

// VerifC08Life: the whole connection life cycle (Handle, startSending, startReceiving, disconnect,
// handleDisconnect with the production metrics decorator) against a scripted client: a burst of 0..9
// requests (fine, refused with an answer, or failing in the handler), then the client closes abruptly, or
// goes silent until the idle timeout, or the sender starts failing; select picks any ready case.
func VerifC08Life() {
	w := newVWorld(0)
	witness := w.newConn()
	witness.mustJoin("")
	sid := witness.sid
	c := w.newConn() // only for its RealtimeHandler
	life := &vLife{RealtimeHandler: c.rh, script: make(chan hwebsocket.Msg, 16), closedByCli: make(chan struct{}), closedBySrv: make(chan struct{})}
	var h Handler = HandlerWithMetrics(life, "endpoint")
	g0 := verifnd.Gauge("ws_connected_clients")

	// the script
	mk := func(p hwebsocket.ProtoMsg) hwebsocket.Msg {
		m, _ := hwebsocket.MsgFromProto(p)
		return m
	}
	join := verifnd.Bool()
	if join {
		life.script <- mk(&hagallpb.ParticipantJoinRequest{Type: hagallpb.MsgType_MSG_TYPE_PARTICIPANT_JOIN_REQUEST, Timestamp: vts(), RequestId: 1, SessionId: sid})
	}
	switched := false
	if join && verifnd.Bool() {
		// the client switches to a session of its own
		switched = true
		life.script <- mk(&hagallpb.ParticipantJoinRequest{Type: hagallpb.MsgType_MSG_TYPE_PARTICIPANT_JOIN_REQUEST, Timestamp: vts(), RequestId: 5, SessionId: ""})
	}
	pendingPose := false
	if join && verifnd.Bool() {
		// ... and leaves a pose update pending in its scheduler when the connection ends
		pendingPose = true
		life.script <- mk(&hagallpb.EntityAddRequest{Type: hagallpb.MsgType_MSG_TYPE_ENTITY_ADD_REQUEST, Timestamp: vts(), RequestId: 6, Pose: &hagallpb.Pose{}})
		life.script <- mk(&hagallpb.EntityUpdatePose{Type: hagallpb.MsgType_MSG_TYPE_ENTITY_UPDATE_POSE, Timestamp: vts(), EntityId: 1, Pose: &hagallpb.Pose{Px: 1}})
	}
	burstMenu := []int{0, 1, 2, 9}
	if switched || pendingPose {
		burstMenu = []int{0, 2}
	}
	burst := burstMenu[verifnd.Choice(len(burstMenu))]
	kind := verifnd.Choice(3)
	for i := 0; i < burst; i++ {
		switch kind {
		case 0: // fine
			life.script <- mk(&hagallpb.Request{Type: hagallpb.MsgType_MSG_TYPE_PING_REQUEST, Timestamp: vts(), RequestId: 2})
		case 1: // answered with an error AND failing in the handler (empty receipt)
			life.script <- mk(&hagallpb.ReceiptRequest{Type: hagallpb.MsgType_MSG_TYPE_RECEIPT_REQUEST, Timestamp: vts(), RequestId: 3})
		case 2: // a request the handler refuses silently or with an answer
			life.script <- mk(&hagallpb.EntityDeleteRequest{Type: hagallpb.MsgType_MSG_TYPE_ENTITY_DELETE_REQUEST, Timestamp: vts(), RequestId: 4, EntityId: 77})
		}
	}
	ending := verifnd.Choice(5)
	endName := "client_closes"
	switch ending {
	case 4:
		// handling each of 1..3 further pings takes longer than the idle timeout, then the client is silent:
		// the idle expiry races with the next waiting message; whichever wins, the connection ends once
		endName = "slow_handling_then_idle"
		if burst != 0 || switched || pendingPose {
			verifnd.Assume(false) // this ending is explored on its own: joined or not, 1..3 slow pings
		}
		life.slowPings = true
		for i, n := 0, 1+verifnd.Choice(3); i < n; i++ {
			life.script <- mk(&hagallpb.Request{Type: hagallpb.MsgType_MSG_TYPE_PING_REQUEST, Timestamp: vts(), RequestId: 8})
		}
	case 3:
		// the client stays connected and the idle period never elapses: nothing may end the connection, unless
		// one of its own requests failed in the handler
		endName = "stays_connected"
	case 0:
		close(life.closedByCli)
	case 1:
		endName = "idle_timeout"
	case 2:
		endName = "send_fails"
		life.sendFails = true
		if !join && (burst == 0 || kind == 2) {
			// nothing is ever sent to this client: the failure cannot show; let it close instead
			close(life.closedByCli)
		}
	}

	run := func(conn *websocket.Conn) {
		done := make(chan struct{})
		go func() {
			Handle(context.Background(), conn, h)
			close(done)
		}()
		if ending == 3 {
			verifnd.Quiesce()
			stillRunning := true
			select {
			case <-done:
				stillRunning = false
			default:
			}
			// an empty receipt fails in the handler; an entity delete from a connection that is in no session is a protocol error
			failing := burst > 0 && (kind == 1 || (kind == 2 && !join))
			verifnd.Assert(verifnd.Iff(!failing, stillRunning), "C08.life.no_spurious_disconnect", endName)
			if stillRunning {
				verifnd.Assert(life.disconnects == 0 && verifnd.Gauge("ws_connected_clients") == g0+1, "C08.life.connected_while_running", endName)
				close(life.closedByCli)
			}
		}
		if ending == 1 || ending == 4 {
			// the client stays silent: time passes; whenever everything is blocked another idle period elapses
			for i := 0; i < 14; i++ {
				verifnd.Quiesce()
				select {
				case <-done:
					return
				default:
				}
				verifnd.FireTickers(vIdle)
			}
		}
		<-done
	}
	if verifnd.Symbolic() {
		run(nil)
	} else {
		finished := make(chan struct{})
		srv := httptest.NewServer(websocket.Server{
			Handshake: func(*websocket.Config, *http.Request) error { return nil },
			Handler:   func(conn *websocket.Conn) { run(conn); close(finished) },
		})
		cfg, _ := websocket.NewConfig(strings.Replace(srv.URL, "http://", "ws://", 1), "http://localhost")
		cli, err := websocket.DialConfig(cfg)
		if err == nil {
			buf := make([]byte, 1)
			cli.Read(buf) // returns when the server side ends
			cli.Close()
			<-finished // ... and the handler must have returned too (a wedged Handle shows as a test timeout)
		}
		srv.Close()
	}

	// the handler has returned: ended through the normal path exactly once
	verifnd.Assert(life.connects == 1, "C08.life.connect_once", endName)
	verifnd.Assert(life.disconnects == 1, "C08.life.disconnect_exactly_once", endName)
	verifnd.Assert(life.RealtimeHandler.CurrentParticipant() == nil && life.RealtimeHandler.CurrentSession() == nil, "C08.life.left_its_session", endName)
	verifnd.Assert(verifnd.Gauge("ws_connected_clients") == g0, "C08.life.gauge_restored", endName)
	// no ghost: the witness in the same session sees the participant leave iff it had joined
	got := witness.drain()
	// the sessions it was in keep running: their frame workers tick without touching the dead connection
	verifnd.FireTickers(vFrame)
	verifnd.Quiesce()
	verifnd.FireTickers(vFrame)
	verifnd.Quiesce()
	joins := countType(got, hagallpb.MsgType_MSG_TYPE_PARTICIPANT_JOIN_BROADCAST)
	leaves := countType(got, hagallpb.MsgType_MSG_TYPE_PARTICIPANT_LEAVE_BROADCAST)
	verifnd.Assert(joins == leaves && joins <= 1, "C08.life.no_ghost", endName)
	s, ok := w.store.GetByGlobalID(sid)
	verifnd.Assert(ok && s.ParticipantCount() == 1, "C08.life.no_ghost", endName)
	verifnd.Observe("c08life", uint64(burst), uint64(kind), uint64(ending), uint64(joins))
	verifnd.Reach("C08.life.done")
	verifnd.Reach("C08.life." + endName)
}

// vFlood is vLife with a client that floods: its receiver never yields, and only the first ping is slow.
type vFlood struct {
	*vLife
	slowLeft int
}

func (v *vFlood) Receiver() hwebsocket.Receiver {
	return func() (hwebsocket.Msg, int, error) {
		select {
		case m := <-v.script:
			return m, 1, nil
		case <-v.closedByCli:
			return hwebsocket.Msg{}, 0, errors.New("EOF")
		case <-v.closedBySrv:
			return hwebsocket.Msg{}, 0, errors.New("use of closed connection")
		}
	}
}

func (v *vFlood) HandlePing(ctx context.Context, respond hwebsocket.ResponseSender, msg hwebsocket.Msg) error {
	if v.slowLeft > 0 {
		v.slowLeft--
		if verifnd.Symbolic() {
			verifnd.FireTickers(vIdle)
		} else {
			time.Sleep(vIdle + vIdle/2)
		}
	}
	return v.RealtimeHandler.HandlePing(ctx, respond, msg)
}

// VerifC08Flood: a client sends a burst that is longer than the connection's message queue (300 pings; the
// scheduler queues 256; one ping, then ping responses) while the handling of its first message outlasts the idle timeout: the receiver is
// blocked handing over message 257 when the connection is ended. Whatever the main loop picks next, the
// connection still ends through the normal path: Handle returns, both goroutines end, no ghost, gauge restored.
func VerifC08Flood() {
	w := newVWorld(0)
	c := w.newConn()
	life := &vLife{RealtimeHandler: c.rh, script: make(chan hwebsocket.Msg, 400), closedByCli: make(chan struct{}), closedBySrv: make(chan struct{})}
	fl := &vFlood{vLife: life, slowLeft: 1}
	var h Handler = HandlerWithMetrics(fl, "endpoint")
	g0 := verifnd.Gauge("ws_connected_clients")
	ping, _ := hwebsocket.MsgFromProto(&hagallpb.Request{Type: hagallpb.MsgType_MSG_TYPE_PING_REQUEST, Timestamp: vts(), RequestId: 2})
	// the rest of the burst needs no answer (ping responses), so that the sender goroutine stays out of the picture
	pong, _ := hwebsocket.MsgFromProto(&hagallpb.Response{Type: hagallpb.MsgType_MSG_TYPE_PING_RESPONSE, Timestamp: vts(), RequestId: 2})
	life.script <- ping
	for i := 0; i < 299; i++ {
		life.script <- pong
	}
	run := func(conn *websocket.Conn) {
		done := make(chan struct{})
		go func() {
			Handle(context.Background(), conn, h)
			close(done)
		}()
		for i := 0; i < 6; i++ {
			verifnd.Quiesce()
			select {
			case <-done:
				return
			default:
			}
			verifnd.FireTickers(vIdle)
		}
		<-done
	}
	if verifnd.Symbolic() {
		run(nil)
	} else {
		finished := make(chan struct{})
		srv := httptest.NewServer(websocket.Server{
			Handshake: func(*websocket.Config, *http.Request) error { return nil },
			Handler:   func(conn *websocket.Conn) { run(conn); close(finished) },
		})
		cfg, _ := websocket.NewConfig(strings.Replace(srv.URL, "http://", "ws://", 1), "http://localhost")
		cli, err := websocket.DialConfig(cfg)
		if err == nil {
			buf := make([]byte, 1)
			cli.Read(buf)
			cli.Close()
			<-finished // the handler must have returned (a wedged Handle shows as a test timeout)
		}
		srv.Close()
	}
	verifnd.Assert(life.disconnects == 1, "C08.flood.disconnect_exactly_once")
	verifnd.Assert(verifnd.Gauge("ws_connected_clients") == g0, "C08.flood.gauge_restored")
	verifnd.Reach("C08.flood.done")
}
