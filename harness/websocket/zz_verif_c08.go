//go:build verif

package websocket

import (
	"github.com/aukilabs/hagall-common/messages/dagazpb"
	"github.com/aukilabs/hagall/internal/verifnd"
)

// VerifC08Panics: one request of any kind (core, vikja, odal, dagaz) with every optional sub-message nil or
// present and every scalar arbitrary (including non-finite floats), from a joined participant. The only
// assertions are the engine's implicit ones: no nil dereference, no index/slice out of range, no failed type
// assertion, no division by zero, no impossible allocation, no explicit panic on any path.
func VerifC08Panics() {
	s := newStepWorld(stepShape{mods: vModVikja | vModOdal | vModDagaz, preset: 0})
	kind := verifnd.Choice(kQuadSample) // dagaz geometry has its own harness (bit-precise floats on cvc5)
	r := buildRequest(kind, true)
	joined := verifnd.Bool()
	actor := s.a0
	if !joined {
		actor = s.n0
	}
	actor.do(r.msg)
	verifnd.Reach("C08.panics.done")
	verifnd.Reach("C08.kind." + kindName(kind))
}

// VerifC08Dagaz: the ground-plane messages with absent points and arbitrary float32 coordinates.
func VerifC08Dagaz() {
	w := newVWorld(vModDagaz)
	c := w.newConn()
	c.mustJoin("")
	c.drain()
	kind := kQuadSample + verifnd.Choice(numKinds-kQuadSample)
	r := buildRequest(kind, true)
	c.do(r.msg)
	verifnd.Reach("C08.dagaz.done")
	verifnd.Reach("C08.kind." + kindName(kind))
}

// VerifC08DagazAbsent: the ground-plane messages with every pattern of absent points (present points have
// concrete coordinates, so no float reasoning is involved): no panic.
func VerifC08DagazAbsent() {
	w := newVWorld(vModDagaz)
	c := w.newConn()
	c.mustJoin("")
	c.drain()
	pt := func() *dagazpb.Point {
		if verifnd.Bool() {
			return &dagazpb.Point{X: 0.5, Y: 0, Z: 0.5}
		}
		return nil
	}
	ext := func() *dagazpb.Point {
		if verifnd.Bool() {
			return &dagazpb.Point{X: 0.25, Y: 0, Z: 0.25}
		}
		return nil
	}
	kind := verifnd.Choice(4)
	switch kind {
	case 0:
		n := 1 + verifnd.Choice(2)
		var qs []*dagazpb.Quad
		for i := 0; i < n; i++ {
			qs = append(qs, &dagazpb.Quad{Center: pt(), Extents: ext()})
		}
		c.do(&dagazpb.DagazQuadSample{Type: dagazpb.MsgType_MSG_TYPE_DAGAZ_QUAD_SAMPLE, Timestamp: vts(), Samples: qs})
	case 1:
		var ray *dagazpb.Ray
		if verifnd.Bool() {
			ray = &dagazpb.Ray{From: pt(), To: pt()}
		}
		c.do(&dagazpb.DagazGetGroundPlaneRequest{Type: dagazpb.MsgType_MSG_TYPE_DAGAZ_GET_GROUND_PLANE_REQUEST, Timestamp: vts(), RequestId: 1, Ray: ray})
	case 2:
		c.do(&dagazpb.DagazGetRegionRequest{Type: dagazpb.MsgType_MSG_TYPE_DAGAZ_GET_REGION_REQUEST, Timestamp: vts(), RequestId: 1, Min: pt(), Max: pt()})
	case 3:
		c.do(&dagazpb.DagazGetDebugInfoRequest{Type: dagazpb.MsgType_MSG_TYPE_DAGAZ_GET_DEBUG_INFO_REQUEST, RequestId: 1})
	}
	verifnd.Reach("C08.dagaz_absent.done")
}
