//go:build verif

package websocket

import (
	"github.com/aukilabs/hagall/internal/verifnd"
)

// VerifC08Panics: one request of any kind (core, vikja, odal, dagaz) with every optional sub-message nil or
// present and every scalar arbitrary (including non-finite floats), from a joined participant. The only
// assertions are the engine's implicit ones: no nil dereference, no index/slice out of range, no failed type
// assertion, no division by zero, no impossible allocation, no explicit panic on any path.
func VerifC08Panics() {
	s := newStepWorld(stepShape{mods: vModVikja | vModOdal | vModDagaz, preset: 0})
	kind := verifnd.Choice(kQuadSample) // dagaz geometry has its own harness (bit-precise floats on cvc5)
	r := buildRequest(kind, true)
	joined := verifnd.Bool()
	actor := s.a0
	if !joined {
		actor = s.n0
	}
	actor.do(r.msg)
	verifnd.Reach("C08.panics.done")
	verifnd.Reach("C08.kind." + kindName(kind))
}

// VerifC08Dagaz: the ground-plane messages with absent points and arbitrary float32 coordinates.
func VerifC08Dagaz() {
	w := newVWorld(vModDagaz)
	c := w.newConn()
	c.mustJoin("")
	c.drain()
	kind := kQuadSample + verifnd.Choice(numKinds-kQuadSample)
	r := buildRequest(kind, true)
	c.do(r.msg)
	verifnd.Reach("C08.dagaz.done")
	verifnd.Reach("C08.kind." + kindName(kind))
}
