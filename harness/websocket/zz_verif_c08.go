//go:build verif

package websocket

import (
	"math"

	"github.com/aukilabs/hagall-common/messages/dagazpb"
	"github.com/aukilabs/hagall-common/messages/hagallpb"
	"github.com/aukilabs/hagall/internal/verifnd"
)

// VerifC08Panics: one request of any kind (core, vikja, odal, dagaz) with every optional sub-message nil or
// present and every scalar arbitrary (including non-finite floats), from a joined participant. The only
// assertions are the engine's implicit ones: no nil dereference, no index/slice out of range, no failed type
// assertion, no division by zero, no impossible allocation, no explicit panic on any path; and the handler
// returns within a step budget.
func VerifC08Panics() {
	s := newStepWorld(stepShape{mods: vModVikja | vModOdal | vModDagaz, preset: 0, prior: verifnd.Bool()})
	kind := verifnd.Choice(kQuadSample) // dagaz geometry has its own harness (bit-precise floats on cvc5)
	r := buildRequest(kind, true)
	joined := verifnd.Bool()
	actor := s.a0
	if !joined {
		actor = s.n0
	}
	verifnd.Terminates(3000000, "C08.handler_returns")
	actor.do(r.msg)
	verifnd.Terminates(0, "")
	verifnd.Reach("C08.panics.done")
	verifnd.Reach("C08.kind." + kindName(kind))
}

// VerifC08Dagaz: the ground-plane messages with absent points and arbitrary float32 coordinates.
func VerifC08Dagaz() {
	w := newVWorld(vModDagaz)
	c := w.newConn()
	c.mustJoin("")
	c.drain()
	kind := kQuadSample + verifnd.Choice(numKinds-kQuadSample)
	r := buildRequest(kind, true)
	c.do(r.msg)
	verifnd.Reach("C08.dagaz.done")
	verifnd.Reach("C08.kind." + kindName(kind))
}

// VerifC08DagazAbsent: the ground-plane messages with every pattern of absent points and of points with
// special coordinates (NaN, infinities, 3e38); present points have concrete coordinates, so no float reasoning
// is involved (the bit-precise harnesses are in modules/dagaz): no panic, and the module's lock is released.
func VerifC08DagazAbsent() {
	w := newVWorld(vModDagaz)
	c := w.newConn()
	c.mustJoin("")
	c.drain()
	nan, inf := float32(math.NaN()), float32(math.Inf(1))
	special := func(k int, ord float32) *dagazpb.Point {
		switch k {
		case 0:
			return nil
		case 1:
			return &dagazpb.Point{X: ord, Y: 0, Z: ord}
		case 2:
			return &dagazpb.Point{X: nan, Y: 0, Z: ord}
		case 3:
			return &dagazpb.Point{X: inf, Y: nan, Z: -inf}
		default:
			return &dagazpb.Point{X: 3e38, Y: 0, Z: -3e38}
		}
	}
	// every point is absent, ordinary, or carries NaN / infinite / huge finite coordinates (through the whole
	// handler path: decoding, the module's lock, the grid)
	pt := func() *dagazpb.Point { return special(verifnd.Choice(5), 0.5) }
	ext := func() *dagazpb.Point { return special(verifnd.Choice(5), 0.25) }
	kind := verifnd.Choice(4)
	// whatever the coordinates, the handler returns (it holds the session's ground-plane lock meanwhile)
	verifnd.Terminates(3000000, "C08.dagaz.handler_returns")
	switch kind {
	case 0:
		n := 1 + verifnd.Choice(2)
		var qs []*dagazpb.Quad
		for i := 0; i < n; i++ {
			qs = append(qs, &dagazpb.Quad{Center: pt(), Extents: ext()})
		}
		c.do(&dagazpb.DagazQuadSample{Type: dagazpb.MsgType_MSG_TYPE_DAGAZ_QUAD_SAMPLE, Timestamp: vts(), Samples: qs})
	case 1:
		var ray *dagazpb.Ray
		if verifnd.Bool() {
			ray = &dagazpb.Ray{From: pt(), To: pt()}
		}
		c.do(&dagazpb.DagazGetGroundPlaneRequest{Type: dagazpb.MsgType_MSG_TYPE_DAGAZ_GET_GROUND_PLANE_REQUEST, Timestamp: vts(), RequestId: 1, Ray: ray})
	case 2:
		c.do(&dagazpb.DagazGetRegionRequest{Type: dagazpb.MsgType_MSG_TYPE_DAGAZ_GET_REGION_REQUEST, Timestamp: vts(), RequestId: 1, Min: pt(), Max: pt()})
	case 3:
		c.do(&dagazpb.DagazGetDebugInfoRequest{Type: dagazpb.MsgType_MSG_TYPE_DAGAZ_GET_DEBUG_INFO_REQUEST, RequestId: 1})
	}
	verifnd.Terminates(0, "")
	// the session's ground-plane state stays usable by the other member (lock released, grid consistent)
	c.drain()
	c2 := w.newConn()
	c2.mustJoin(c.sid)
	c2.drain()
	c2.do(&dagazpb.DagazGetRegionRequest{Type: dagazpb.MsgType_MSG_TYPE_DAGAZ_GET_REGION_REQUEST, Timestamp: vts(), RequestId: 2, Min: &dagazpb.Point{X: -1e6, Z: -1e6}, Max: &dagazpb.Point{X: 1e6, Z: 1e6}})
	verifnd.Assert(countType(c2.drain(), hagallpb.MsgType(dagazpb.MsgType_MSG_TYPE_DAGAZ_GET_REGION_RESPONSE)) == 1, "C08.dagaz.other_member_still_served")
	verifnd.Reach("C08.dagaz_absent.done")
}
