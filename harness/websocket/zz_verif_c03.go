//go:build verif

package websocket

import (
	"github.com/aukilabs/hagall-common/messages/hagallpb"
	"github.com/aukilabs/hagall/internal/verifnd"
)

// VerifC03Foreign: a connection that is not a member of session A (a member of B, an unjoined
// connection, a connection that left A, a connection whose join to A's... was refused) sends an
// arbitrary request naming ids that coincide with A's. A's members receive nothing and a newcomer to A
// is handed exactly the state a probe held before.
func VerifC03Foreign() { foreignStep("C03") }

// VerifC04Unjoined: the second sentence of C04 — a request that needs a session, sent by a connection that
// is in none, is never executed (same exploration, labels owned by C04).
func VerifC04Unjoined() { foreignStep("C04") }

// needsSession: kinds whose success answer is only legitimate for a member of a session.
func needsSession(k int) bool {
	switch k {
	case kPing, kJoin, kReceipt, kDisconnect:
		return false
	}
	return true
}

func foreignStep(P string) {
	s := newStepWorld(stepShape{mods: vModVikja | vModOdal | vModDagaz, symIDs: true})
	if s.hasAction {
		assumeValidTS(s.actSec, s.actNanos)
	}
	p1, view := s.probe(s.a0.sid)
	s.w.drainAll()

	var actor *vConn
	inNoSession := false
	who := verifnd.Choice(5)
	whoName := "b0"
	switch who {
	case 0:
		actor = s.b0
	case 1:
		actor, whoName, inNoSession = s.n0, "unjoined", true
	case 2:
		// a connection that joined A and left it again by switching to its own new session
		actor, whoName = s.w.newConn(), "left"
		actor.mustJoin(s.a0.sid)
		actor.mustJoin("")
		for _, m := range p1.drain() {
			verifnd.Assert(view.apply(m, 0), "setup.left.broadcasts_applicable")
		}
		s.w.drainAll()
	case 3:
		// a connection whose join was refused (unknown id) and that never was in A
		actor, whoName = s.w.newConn(), "refused"
		actor.join("no-such-session", 5)
		verifnd.Assert(actor.pid == 0, "setup.refused.not_joined")
		inNoSession = true
		s.w.drainAll()
	case 4:
		// a member of A whose switch to an unknown session was refused. If the refusal made it leave A (the
		// members were told so) it is in no session and must not be served; if it is still a member it is
		// no foreign actor at all and the case does not apply.
		actor, whoName = s.w.newConn(), "left_by_refused_switch"
		actor.mustJoin(s.a0.sid)
		for _, m := range p1.drain() {
			verifnd.Assert(view.apply(m, 0), "setup.left.broadcasts_applicable")
		}
		s.w.drainAll()
		actor.pid = 0
		actor.join("no-such-session", 6)
		verifnd.Assert(actor.pid == 0, "setup.refused_switch.refused")
		told := 0
		for _, m := range p1.drain() {
			if typeNum(m) == int32(hagallpb.MsgType_MSG_TYPE_PARTICIPANT_LEAVE_BROADCAST) {
				told++
			}
			verifnd.Assert(view.apply(m, 0), "setup.left.broadcasts_applicable")
		}
		s.w.drainAll()
		if told == 0 {
			verifnd.Reach(P + ".who." + whoName)
			return
		}
		inNoSession = true
	}
	kind := verifnd.Choice(numKinds + 1)
	kn := stepKindName(kind)
	var r *stepReq
	if kind == kDisconnect {
		actor.rh.HandleDisconnect(nil)
	} else {
		r = buildRequest(kind, false)
		if r.actTS != nil {
			assumeValidTS(r.actTS.Seconds, r.actTS.Nanos)
		}
		if kind == kJoin {
			// not a request to become a member of A (that is C02/C07's subject)
			verifnd.Assume(r.name != s.a0.sid)
		}
		if kind == kQuadSample || kind == kGetGroundPlane || kind == kGetRegion {
			return // geometry inputs are C08/C20's subject; session scoping of dagaz is covered by get_debug_info
		}
		actor.do(r.msg)
		if inNoSession && needsSession(kind) {
			// never executed: no success answer (an error answer, silence, or the end of the connection are all fine)
			st := successType(kind)
			for _, m := range actor.drain() {
				verifnd.Assert(st == 0 || typeNum(m) != st, P+".no_session.never_executed", whoName, kn)
				verifnd.Assert(!isBroadcastType(typeNum(m)), P+".no_session.never_executed", whoName, kn)
			}
		}
	}
	// nothing observable in A
	verifnd.Assert(len(s.a0.drain()) == 0, P+".members.receive_nothing", whoName, kn, "a0")
	verifnd.Assert(len(s.a1.drain()) == 0, P+".members.receive_nothing", whoName, kn, "a1")
	verifnd.Assert(len(s.a2.drain()) == 0, P+".members.receive_nothing", whoName, kn, "a2")
	verifnd.Assert(len(p1.drain()) == 0, P+".members.receive_nothing", whoName, kn, "probe")
	// and nothing changed in what A hands to a newcomer
	_, handed := s.probe(s.a0.sid)
	for _, m := range p1.drain() {
		verifnd.Assert(view.apply(m, 0), P+".newcomer.join_broadcast_only", whoName, kn)
	}
	verifnd.Assert(view.sameParticipants(handed), P+".state.participants_unchanged", whoName, kn)
	verifnd.Assert(view.sameEntities(handed), P+".state.entities_unchanged", whoName, kn)
	verifnd.Assert(view.sameComponents(handed, s.tReg), P+".state.components_unchanged", whoName, kn)
	verifnd.Assert(view.sameActions(handed), P+".state.actions_unchanged", whoName, kn)
	verifnd.Assert(view.sameAssets(handed), P+".state.assets_unchanged", whoName, kn)
	// component types of A are untouched: the next registration gets the next id
	m := s.a1.expectOne(&hagallpb.EntityComponentTypeAddRequest{Type: hagallpb.MsgType_MSG_TYPE_ENTITY_COMPONENT_TYPE_ADD_REQUEST, Timestamp: vts(), RequestId: 8, EntityComponentTypeName: "fresh-name"},
		hagallpb.MsgType_MSG_TYPE_ENTITY_COMPONENT_TYPE_ADD_RESPONSE, "setup.type_add_after")
	var tr hagallpb.EntityComponentTypeAddResponse
	m.DataTo(&tr)
	verifnd.Assert(tr.EntityComponentTypeId == s.tReg+1, P+".state.type_ids_unchanged", whoName, kn)
	verifnd.Observe("c03", uint64(who), uint64(kind), uint64(len(handed.ents)))
	verifnd.Reach(P + ".foreign.done")
	verifnd.Reach(P + ".who." + whoName)
}

// VerifC03Reuse: session A ends, a new session takes over its id: it starts empty under a new UUID and
// nothing its former members send reaches it.
func VerifC03Reuse() {
	w := newVWorld(vModVikja | vModOdal)
	x, y, z := w.newConn(), w.newConn(), w.newConn()
	x.mustJoin("")
	oldSid, oldUUID := x.sid, x.uuid
	e := x.addEntity(true, symPose())
	_ = e
	// x leaves without landing anywhere: refused switch (known behaviour) or disconnect
	how := verifnd.Choice(2)
	if how == 0 {
		x.rh.HandleDisconnect(nil)
	} else {
		x.mustJoin("") // leaves by creating a session of its own; the old one ends
	}
	w.drainAll()
	y.mustJoin("")
	msgs := y.join("", 4)
	_ = msgs
	verifnd.Assert(y.pid != 0, "setup.reuse.joined")
	if y.sid == oldSid {
		verifnd.Assert(y.uuid != oldUUID, "C03.reuse.new_uuid")
	}
	_, handed := func() (*vConn, *vView) {
		p := w.newConn()
		ms := p.join(y.sid, 9)
		return p, viewFromJoin(ms)
	}()
	verifnd.Assert(len(handed.ents) == 0 && len(handed.comps) == 0 && len(handed.acts) == 0 && len(handed.assets) == 0, "C03.reuse.starts_empty")
	w.drainAll()
	// a former member's request reaches nobody in the new session
	kind := verifnd.Choice(kQuadSample)
	r := buildRequest(kind, false)
	if r.actTS != nil {
		assumeValidTS(r.actTS.Seconds, r.actTS.Nanos)
	}
	if kind == kJoin {
		verifnd.Assume(r.name != y.sid)
	}
	x.do(r.msg)
	verifnd.Assert(len(y.drain()) == 0, "C03.reuse.former_member_reaches_nobody", kindName(kind))
	_ = z
	verifnd.Reach("C03.reuse.done")
}

// VerifC03Switch: what the members of A receive from a participant does not depend on whether that
// participant was in another session before (its own, or B) — including the frame-scheduled traffic
// (pose and component updates), which only flows if the connection's frame handler is registered with A.
func VerifC03Switch() {
	s := newStepWorld(stepShape{mods: vModVikja | vModOdal, preset: 0, noFree: true})
	x := s.w.newConn()
	prior := verifnd.Choice(3)
	priorName := "none"
	switch prior {
	case 1:
		priorName = "own_session"
		x.mustJoin("")
	case 2:
		priorName = "session_b"
		x.mustJoin(s.b0.sid)
	}
	x.mustJoin(s.a0.sid)
	s.w.drainAll()
	e := x.addEntity(false, &hagallpb.Pose{})
	s.w.drainAll()
	// frame-scheduled traffic
	x.dispatch(&hagallpb.EntityUpdatePose{Type: hagallpb.MsgType_MSG_TYPE_ENTITY_UPDATE_POSE, Timestamp: vts(), EntityId: e, Pose: &hagallpb.Pose{Px: 5}})
	verifnd.FireTickers(vFrame)
	x.pump()
	got := s.a1.drain()
	verifnd.Assert(countType(got, hagallpb.MsgType_MSG_TYPE_ENTITY_UPDATE_POSE_BROADCAST) == 1 && len(got) == 1, "C03.switch.same_stream_whatever_the_prior_session", priorName)
	verifnd.Assert(len(s.b0.drain()) == 0, "C03.switch.left_session_hears_nothing", priorName)
	verifnd.Reach("C03.switch.done")
	verifnd.Reach("C03.switch." + priorName)
}
