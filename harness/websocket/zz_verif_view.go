//go:build verif

package websocket

import (
	"github.com/aukilabs/hagall-common/messages/hagallpb"
	"github.com/aukilabs/hagall-common/messages/odalpb"
	"github.com/aukilabs/hagall-common/messages/vikjapb"
	hwebsocket "github.com/aukilabs/hagall-common/websocket"
	"github.com/aukilabs/hagall/internal/verifnd"
)

// A reference client: the replicated view a participant holds, built only from what the server sent.

type vEnt struct {
	id, owner uint32
	flag      hagallpb.EntityFlag
	hasPose   bool
	pose      [7]float32
}

type vComp struct {
	tid, eid uint32
	data     []byte
}

type vAct struct {
	eid   uint32
	name  string
	hasTS bool
	sec   int64
	nanos int32
	data  []byte
}

type vAsset struct {
	id       uint32
	assetID  string
	pid, eid uint32
}

type vView struct {
	parts                         []uint32
	ents                          []vEnt
	comps                         []vComp
	acts                          []vAct
	assets                        []vAsset
	gotSession, gotVikja, gotOdal int // how many of each state message were handed over
	wellFormed                    bool
}

func poseArr(p *hagallpb.Pose) (bool, [7]float32) {
	if p == nil {
		return false, [7]float32{}
	}
	return true, [7]float32{p.Px, p.Py, p.Pz, p.Rx, p.Ry, p.Rz, p.Rw}
}

func entFromPB(e *hagallpb.Entity) vEnt {
	hp, pa := poseArr(e.Pose)
	return vEnt{id: e.Id, owner: e.ParticipantId, flag: e.Flag, hasPose: hp, pose: pa}
}

func actFromPB(a *vikjapb.EntityAction) vAct {
	v := vAct{eid: a.EntityId, name: a.Name, data: a.Data}
	if a.Timestamp != nil {
		v.hasTS, v.sec, v.nanos = true, a.Timestamp.Seconds, a.Timestamp.Nanos
	}
	return v
}

// viewFromJoin decodes the state messages handed to a joiner.
func viewFromJoin(msgs []hwebsocket.Msg) *vView {
	v := &vView{wellFormed: true}
	for _, m := range msgs {
		switch typeNum(m) {
		case int32(hagallpb.MsgType_MSG_TYPE_SESSION_STATE):
			var st hagallpb.SessionState
			if m.DataTo(&st) != nil {
				v.wellFormed = false
				continue
			}
			v.gotSession++
			for _, p := range st.Participants {
				v.parts = append(v.parts, p.Id)
			}
			for _, e := range st.Entities {
				v.ents = append(v.ents, entFromPB(e))
			}
			for _, c := range st.EntityComponents {
				v.comps = append(v.comps, vComp{tid: c.EntityComponentTypeId, eid: c.EntityId, data: c.Data})
			}
		case int32(vikjapb.MsgType_MSG_TYPE_VIKJA_STATE):
			var st vikjapb.State
			if m.DataTo(&st) != nil {
				v.wellFormed = false
				continue
			}
			v.gotVikja++
			for _, a := range st.EntityActions {
				v.acts = append(v.acts, actFromPB(a))
			}
		case int32(odalpb.MsgType_MSG_TYPE_ODAL_STATE):
			var st odalpb.State
			if m.DataTo(&st) != nil {
				v.wellFormed = false
				continue
			}
			v.gotOdal++
			for _, a := range st.AssetInstances {
				v.assets = append(v.assets, vAsset{id: a.Id, assetID: a.AssetId, pid: a.ParticipantId, eid: a.EntityId})
			}
		}
	}
	return v
}

func (v *vView) hasPart(id uint32) bool {
	for _, p := range v.parts {
		if p == id {
			return true
		}
	}
	return false
}

func (v *vView) entIdx(id uint32) int {
	for i := range v.ents {
		if v.ents[i].id == id {
			return i
		}
	}
	return -1
}

func (v *vView) compIdx(tid, eid uint32) int {
	for i := range v.comps {
		if v.comps[i].tid == tid && v.comps[i].eid == eid {
			return i
		}
	}
	return -1
}

func (v *vView) actIdx(eid uint32, name string) int {
	for i := range v.acts {
		if v.acts[i].eid == eid && v.acts[i].name == name {
			return i
		}
	}
	return -1
}

func (v *vView) assetIdx(eid uint32) int {
	for i := range v.assets {
		if v.assets[i].eid == eid {
			return i
		}
	}
	return -1
}

func (v *vView) dropEntity(eid uint32) {
	if i := v.entIdx(eid); i >= 0 {
		v.ents = append(v.ents[:i:i], v.ents[i+1:]...)
	}
	var cs []vComp
	for _, c := range v.comps {
		if c.eid != eid {
			cs = append(cs, c)
		}
	}
	v.comps = cs
	var as []vAct
	for _, a := range v.acts {
		if a.eid != eid {
			as = append(as, a)
		}
	}
	v.acts = as
	var ai []vAsset
	for _, a := range v.assets {
		if a.eid != eid {
			ai = append(ai, a)
		}
	}
	v.assets = ai
}

// apply folds one received broadcast into the view. It returns whether the broadcast was applicable
// (no update/delete of something unknown, no add of something already known). syncT: component type the
// holder has been subscribed to since its snapshot (0 = none): component clauses are only judged for it.
func (v *vView) apply(m hwebsocket.Msg, syncT uint32) bool {
	switch typeNum(m) {
	case int32(hagallpb.MsgType_MSG_TYPE_PARTICIPANT_JOIN_BROADCAST):
		var b hagallpb.ParticipantJoinBroadcast
		if m.DataTo(&b) != nil {
			return false
		}
		ok := !v.hasPart(b.ParticipantId)
		if ok {
			v.parts = append(v.parts, b.ParticipantId)
		}
		return ok
	case int32(hagallpb.MsgType_MSG_TYPE_PARTICIPANT_LEAVE_BROADCAST):
		var b hagallpb.ParticipantLeaveBroadcast
		if m.DataTo(&b) != nil {
			return false
		}
		ok := v.hasPart(b.ParticipantId)
		var ps []uint32
		for _, p := range v.parts {
			if p != b.ParticipantId {
				ps = append(ps, p)
			}
		}
		v.parts = ps
		return ok
	case int32(hagallpb.MsgType_MSG_TYPE_ENTITY_ADD_BROADCAST):
		var b hagallpb.EntityAddBroadcast
		if m.DataTo(&b) != nil || b.Entity == nil {
			return false
		}
		ok := v.entIdx(b.Entity.Id) < 0
		if ok {
			v.ents = append(v.ents, entFromPB(b.Entity))
		}
		return ok
	case int32(hagallpb.MsgType_MSG_TYPE_ENTITY_DELETE_BROADCAST):
		var b hagallpb.EntityDeleteBroadcast
		if m.DataTo(&b) != nil {
			return false
		}
		ok := v.entIdx(b.EntityId) >= 0
		v.dropEntity(b.EntityId)
		return ok
	case int32(hagallpb.MsgType_MSG_TYPE_ENTITY_UPDATE_POSE_BROADCAST):
		var b hagallpb.EntityUpdatePoseBroadcast
		if m.DataTo(&b) != nil {
			return false
		}
		i := v.entIdx(b.EntityId)
		if i < 0 {
			return false
		}
		v.ents[i].hasPose, v.ents[i].pose = poseArr(b.Pose)
		return true
	case int32(hagallpb.MsgType_MSG_TYPE_ENTITY_COMPONENT_ADD_BROADCAST):
		var b hagallpb.EntityComponentAddBroadcast
		if m.DataTo(&b) != nil || b.EntityComponent == nil {
			return false
		}
		c := b.EntityComponent
		known := v.compIdx(c.EntityComponentTypeId, c.EntityId) >= 0
		if !known {
			v.comps = append(v.comps, vComp{tid: c.EntityComponentTypeId, eid: c.EntityId, data: c.Data})
		}
		if c.EntityComponentTypeId != syncT {
			return true
		}
		return !known && v.entIdx(c.EntityId) >= 0
	case int32(hagallpb.MsgType_MSG_TYPE_ENTITY_COMPONENT_UPDATE_BROADCAST):
		var b hagallpb.EntityComponentUpdateBroadcast
		if m.DataTo(&b) != nil || b.EntityComponent == nil {
			return false
		}
		c := b.EntityComponent
		i := v.compIdx(c.EntityComponentTypeId, c.EntityId)
		if i >= 0 {
			v.comps[i].data = c.Data
		}
		if c.EntityComponentTypeId != syncT {
			return true
		}
		return i >= 0
	case int32(hagallpb.MsgType_MSG_TYPE_ENTITY_COMPONENT_DELETE_BROADCAST):
		var b hagallpb.EntityComponentDeleteBroadcast
		if m.DataTo(&b) != nil || b.EntityComponent == nil {
			return false
		}
		c := b.EntityComponent
		i := v.compIdx(c.EntityComponentTypeId, c.EntityId)
		if i >= 0 {
			v.comps = append(v.comps[:i:i], v.comps[i+1:]...)
		}
		if c.EntityComponentTypeId != syncT {
			return true
		}
		return i >= 0
	case int32(vikjapb.MsgType_MSG_TYPE_VIKJA_ENTITY_ACTION_BROADCAST):
		var b vikjapb.EntityActionBroadcast
		if m.DataTo(&b) != nil || b.EntityAction == nil {
			return false
		}
		a := actFromPB(b.EntityAction)
		if i := v.actIdx(a.eid, a.name); i >= 0 {
			v.acts[i] = a
		} else {
			v.acts = append(v.acts, a)
		}
		return v.entIdx(a.eid) >= 0
	case int32(odalpb.MsgType_MSG_TYPE_ODAL_ASSET_INSTANCE_ADD_BROADCAST):
		var b odalpb.AssetInstanceAddBroadcast
		if m.DataTo(&b) != nil || b.AssetInstance == nil {
			return false
		}
		a := vAsset{id: b.AssetInstance.Id, assetID: b.AssetInstance.AssetId, pid: b.AssetInstance.ParticipantId, eid: b.AssetInstance.EntityId}
		if i := v.assetIdx(a.eid); i >= 0 {
			v.assets[i] = a
		} else {
			v.assets = append(v.assets, a)
		}
		return v.entIdx(a.eid) >= 0
	case int32(hagallpb.MsgType_MSG_TYPE_CUSTOM_MESSAGE_BROADCAST):
		return true
	}
	// anything else (responses, state messages) is not a broadcast a member should be sent
	return false
}

func samePose(a, b vEnt) bool {
	ok := a.hasPose == b.hasPose
	for i := range a.pose {
		ok = verifnd.And(ok, verifnd.SameF32(a.pose[i], b.pose[i]))
	}
	return ok
}

// sameParticipants: equal as sets.
func (v *vView) sameParticipants(o *vView) bool {
	ok := len(v.parts) == len(o.parts)
	for _, p := range v.parts {
		ok = verifnd.And(ok, o.hasPart(p))
	}
	return ok
}

func (v *vView) sameEntities(o *vView) bool {
	ok := len(v.ents) == len(o.ents)
	for _, e := range v.ents {
		j := o.entIdx(e.id)
		if j < 0 {
			return false
		}
		x := o.ents[j]
		ok = verifnd.And(ok, e.owner == x.owner, e.flag == x.flag, samePose(e, x))
	}
	return ok
}

// sameComponents compares the components of one type.
func (v *vView) sameComponents(o *vView, tid uint32) bool {
	n, m := 0, 0
	for _, c := range v.comps {
		if c.tid == tid {
			n++
		}
	}
	for _, c := range o.comps {
		if c.tid == tid {
			m++
		}
	}
	ok := n == m
	for _, c := range v.comps {
		if c.tid != tid {
			continue
		}
		j := o.compIdx(c.tid, c.eid)
		if j < 0 {
			return false
		}
		ok = verifnd.And(ok, verifnd.SameBytes(c.data, o.comps[j].data))
	}
	return ok
}

func (v *vView) sameActions(o *vView) bool {
	ok := len(v.acts) == len(o.acts)
	for _, a := range v.acts {
		j := o.actIdx(a.eid, a.name)
		if j < 0 {
			return false
		}
		x := o.acts[j]
		ok = verifnd.And(ok, a.hasTS == x.hasTS, a.sec == x.sec, a.nanos == x.nanos, verifnd.SameBytes(a.data, x.data))
	}
	return ok
}

func (v *vView) sameAssets(o *vView) bool {
	ok := len(v.assets) == len(o.assets)
	for _, a := range v.assets {
		j := o.assetIdx(a.eid)
		if j < 0 {
			return false
		}
		x := o.assets[j]
		ok = verifnd.And(ok, a.id == x.id, a.assetID == x.assetID, a.pid == x.pid)
	}
	return ok
}

// selfConsistent: every attachment in the handed state refers to an entity in it; no duplicates.
func (v *vView) selfConsistent() bool {
	ok := true
	for i, e := range v.ents {
		for j := i + 1; j < len(v.ents); j++ {
			ok = verifnd.And(ok, e.id != v.ents[j].id)
		}
	}
	for i, p := range v.parts {
		for j := i + 1; j < len(v.parts); j++ {
			ok = verifnd.And(ok, p != v.parts[j])
		}
	}
	for _, c := range v.comps {
		ok = verifnd.And(ok, v.entIdx(c.eid) >= 0)
	}
	for _, a := range v.acts {
		ok = verifnd.And(ok, v.entIdx(a.eid) >= 0)
	}
	for _, a := range v.assets {
		ok = verifnd.And(ok, v.entIdx(a.eid) >= 0)
	}
	return ok
}

// joinView joins session sid with a fresh connection and returns its decoded state.
func (s *stepWorld) probe(sid string) (*vConn, *vView) {
	p := s.w.newConn()
	msgs := p.join(sid, 99)
	verifnd.Assert(p.pid != 0, "setup.probe.joined")
	return p, viewFromJoin(msgs)
}
