//go:build verif

package websocket

import (
	"github.com/aukilabs/hagall-common/messages/dagazpb"
	"github.com/aukilabs/hagall/internal/verifnd"
)

func vQuadSample(cx, cz float32) *dagazpb.DagazQuadSample {
	return &dagazpb.DagazQuadSample{Type: dagazpb.MsgType_MSG_TYPE_DAGAZ_QUAD_SAMPLE, Timestamp: vts(),
		Samples: []*dagazpb.Quad{{Center: &dagazpb.Point{X: cx, Y: 0, Z: cz}, Extents: &dagazpb.Point{X: 0.25, Y: 0, Z: 0.25}}}}
}

// regionCount asks connection c for every plane of the session's index.
func regionCount(c *vConn) (int, uint32) {
	c.do(&dagazpb.DagazGetRegionRequest{Type: dagazpb.MsgType_MSG_TYPE_DAGAZ_GET_REGION_REQUEST, Timestamp: vts(), RequestId: 5,
		Min: &dagazpb.Point{X: -64, Y: 0, Z: -64}, Max: &dagazpb.Point{X: 64, Y: 0, Z: 64}})
	n := -1
	for _, m := range c.drain() {
		if typeNum(m) == int32(dagazpb.MsgType_MSG_TYPE_DAGAZ_GET_REGION_RESPONSE) {
			var r dagazpb.DagazGetRegionResponse
			if m.DataTo(&r) == nil {
				n = len(r.Quads)
			}
		}
	}
	c.do(&dagazpb.DagazGetDebugInfoRequest{Type: dagazpb.MsgType_MSG_TYPE_DAGAZ_GET_DEBUG_INFO_REQUEST, RequestId: 6})
	var planes uint32
	for _, m := range c.drain() {
		if typeNum(m) == int32(dagazpb.MsgType_MSG_TYPE_DAGAZ_GET_DEBUG_INFO_RESPONSE) {
			var r dagazpb.DagazGetDebugInfoResponse
			if m.DataTo(&r) == nil {
				planes = r.GridPlaneCount
			}
		}
	}
	return n, planes
}

// VerifC20Retention: ground-plane samples are shared by the participants of a session and kept while the
// session lives: an arbitrary bounded history of samples (disjoint planes), joins, departures and switches;
// after every step every member's region query returns every plane stored so far.
func VerifC20Retention() {
	w := newVWorld(vModDagaz | vModVikja)
	conns := []*vConn{w.newConn(), w.newConn(), w.newConn()}
	in := []bool{true, false, false}
	conns[0].mustJoin("")
	sid := conns[0].sid
	stored := 0
	steps := 4
	if verifnd.Tier() == 1 {
		steps = 5
	}
	for st := 0; st < steps; st++ {
		ci := verifnd.Choice(3)
		c := conns[ci]
		switch verifnd.Choice(3) {
		case 0: // a member adds a plane far from the others
			if !in[ci] {
				continue
			}
			c.do(vQuadSample(float32(stored*6)+0.5, 0.5))
			stored++
		case 1: // joins (or re-joins after having left)
			if in[ci] {
				continue
			}
			c.mustJoin(sid)
			in[ci] = true
		case 2: // leaves, unless it is the last member (the session would end)
			if !in[ci] {
				continue
			}
			others := 0
			for k := range in {
				if k != ci && in[k] {
					others++
				}
			}
			if others == 0 {
				continue
			}
			c.rh.HandleDisconnect(nil)
			in[ci] = false
		}
		w.drainAll()
		for k, m := range conns {
			if in[k] {
				n, planes := regionCount(m)
				verifnd.Assert(n == stored, "C20.retention.every_member_sees_every_stored_plane")
				verifnd.Assert(int(planes) == stored, "C20.retention.plane_count")
			}
		}
	}
	verifnd.Observe("c20r", uint64(stored))
	verifnd.Reach("C20.retention.done")
}
