//go:build verif

package websocket

import (
	"github.com/aukilabs/hagall-common/messages/hagallpb"
	hwebsocket "github.com/aukilabs/hagall-common/websocket"
	"github.com/aukilabs/hagall/internal/verifnd"
)

func countT(msgs []hwebsocket.Msg, t hagallpb.MsgType) int { return countType(msgs, t) }

// VerifC13Notify: arbitrary subscription sets for three members; one step that may change them
// (subscribe / unsubscribe / departure of a subscriber / nothing), then one component change by a0 or a1;
// the recipients must be exactly those a reference predicate names.
func VerifC13Notify() {
	s := newStepWorld(stepShape{freeBits: false, preset: 0, mods: 0, par: nil, noFree: true, prior: verifnd.Tier() == 1 && verifnd.Bool()})
	// free subscription bits on top of the preset world: rebuild subscriptions explicitly
	sub := [3]bool{s.sub0, s.sub1, s.sub2}
	conns := []*vConn{s.a0, s.a1, s.a2}
	for i, c := range conns {
		want := verifnd.Bool()
		if want && !sub[i] {
			c.expectSubscribe(s.tReg)
		}
		if !want && sub[i] {
			c.expectOne(&hagallpb.EntityComponentTypeUnsubscribeRequest{Type: hagallpb.MsgType_MSG_TYPE_ENTITY_COMPONENT_TYPE_UNSUBSCRIBE_REQUEST, Timestamp: vts(), RequestId: 9, EntityComponentTypeId: s.tReg},
				hagallpb.MsgType_MSG_TYPE_ENTITY_COMPONENT_TYPE_UNSUBSCRIBE_RESPONSE, "setup.unsubscribe")
		}
		sub[i] = want
	}
	// a second registered type with its own subscribers: subscriptions are per type
	m2 := s.a2.expectOne(&hagallpb.EntityComponentTypeAddRequest{Type: hagallpb.MsgType_MSG_TYPE_ENTITY_COMPONENT_TYPE_ADD_REQUEST, Timestamp: vts(), RequestId: 8, EntityComponentTypeName: "t2"},
		hagallpb.MsgType_MSG_TYPE_ENTITY_COMPONENT_TYPE_ADD_RESPONSE, "setup.type_add2")
	var tr2 hagallpb.EntityComponentTypeAddResponse
	m2.DataTo(&tr2)
	t2 := tr2.EntityComponentTypeId
	var sub2 [3]bool
	for i, c := range conns {
		if verifnd.Tier() == 1 || i == 2 {
			sub2[i] = verifnd.Bool()
			if sub2[i] {
				c.expectSubscribe(t2)
			}
		}
	}
	s.w.drainAll()
	present := [3]bool{true, true, true} // a0, a1, a2 still members

	// step 1: a change of the subscription sets
	step := verifnd.Choice(6)
	stepName := "none"
	switch step {
	case 1: // a2 subscribes (arbitrary type id)
		stepName = "subscribe"
		tid := verifnd.U32()
		s.a2.do(&hagallpb.EntityComponentTypeSubscribeRequest{Type: hagallpb.MsgType_MSG_TYPE_ENTITY_COMPONENT_TYPE_SUBSCRIBE_REQUEST, Timestamp: vts(), RequestId: 3, EntityComponentTypeId: tid})
		own := s.a2.drain()
		ok := countT(own, hagallpb.MsgType_MSG_TYPE_ENTITY_COMPONENT_TYPE_SUBSCRIBE_RESPONSE) == 1
		verifnd.Assert(verifnd.Iff(verifnd.Or(tid == s.tReg, tid == t2), ok), "C13.subscribe.only_registered_types")
		if ok && tid == s.tReg {
			sub[2] = true
		}
		if ok && tid == t2 {
			sub2[2] = true
		}
	case 2: // a1 unsubscribes (arbitrary type id)
		stepName = "unsubscribe"
		tid := verifnd.U32()
		s.a1.do(&hagallpb.EntityComponentTypeUnsubscribeRequest{Type: hagallpb.MsgType_MSG_TYPE_ENTITY_COMPONENT_TYPE_UNSUBSCRIBE_REQUEST, Timestamp: vts(), RequestId: 3, EntityComponentTypeId: tid})
		s.a1.drain()
		if tid == s.tReg {
			sub[1] = false
		}
		if tid == t2 {
			sub2[1] = false
		}
	case 3: // a2 (owns nothing) unsubscribes from the registered type
		stepName = "unsubscribe_a2"
		s.a2.do(&hagallpb.EntityComponentTypeUnsubscribeRequest{Type: hagallpb.MsgType_MSG_TYPE_ENTITY_COMPONENT_TYPE_UNSUBSCRIBE_REQUEST, Timestamp: vts(), RequestId: 3, EntityComponentTypeId: s.tReg})
		s.a2.drain()
		sub[2] = false
	case 4: // a2 leaves
		stepName = "leave"
		s.a2.rh.HandleDisconnect(nil)
		sub[2], sub2[2], present[2] = false, false, false
	case 5: // a2 leaves and comes back: its subscription is gone
		stepName = "rejoin"
		s.a2.rh.HandleDisconnect(nil)
		s.a2.mustJoin(s.a0.sid)
		sub[2], sub2[2] = false, false
	}
	s.w.drainAll()

	// step 2: one component change
	actorIdx := verifnd.Choice(2)
	actor := conns[actorIdx]
	kinds := []int{kCompAdd, kCompUpdate, kCompDelete}
	kind := kinds[verifnd.Choice(3)]
	kn := kindName(kind)
	r := buildRequest(kind, false)
	actor.do(r.msg)
	own := actor.drain()
	accepted := false
	switch kind {
	case kCompAdd:
		accepted = countT(own, hagallpb.MsgType_MSG_TYPE_ENTITY_COMPONENT_ADD_RESPONSE) == 1
	case kCompDelete:
		accepted = countT(own, hagallpb.MsgType_MSG_TYPE_ENTITY_COMPONENT_DELETE_RESPONSE) == 1
	case kCompUpdate:
		// processed iff it names an existing component of the registered type
		accepted = verifnd.And(r.tid == s.tReg, verifnd.Or(r.eid == s.eOwn, r.eid == s.eOther, r.eid == s.ePers))
	}
	for _, m := range own {
		verifnd.Assert(!isBroadcastType(typeNum(m)), "C13.never_own_change", stepName, kn)
	}
	onT2 := r.tid == t2
	var subOf [3]bool
	for i := range subOf {
		subOf[i] = verifnd.IteBool(onT2, sub2[i], sub[i])
	}
	anySub := verifnd.Or(subOf[0], subOf[1], subOf[2])
	bt := map[int]hagallpb.MsgType{kCompAdd: hagallpb.MsgType_MSG_TYPE_ENTITY_COMPONENT_ADD_BROADCAST, kCompUpdate: hagallpb.MsgType_MSG_TYPE_ENTITY_COMPONENT_UPDATE_BROADCAST, kCompDelete: hagallpb.MsgType_MSG_TYPE_ENTITY_COMPONENT_DELETE_BROADCAST}[kind]
	for i, c := range conns {
		if i == actorIdx {
			continue
		}
		got := c.drain()
		n := countT(got, bt)
		verifnd.Assert(len(got) == n && n <= 1, "C13.only_the_notification_at_most_once", stepName, kn, memberName(i-0))
		var exp bool
		onReg := verifnd.Or(r.tid == s.tReg, onT2)
		if kind == kCompUpdate {
			exp = verifnd.And(accepted, present[i], subOf[i])
		} else {
			// add and delete are told to every other member while the type has a subscriber
			exp = verifnd.And(accepted, onReg, present[i], anySub)
		}
		// a subscriber is told about every change by others; a non-subscriber never about updates;
		// while nobody subscribes nobody is told
		verifnd.Assert(verifnd.Implies(verifnd.And(accepted, onReg, present[i], subOf[i]), n == 1), "C13.subscriber_is_notified", stepName, kn)
		verifnd.Assert(verifnd.Implies(!anySub, n == 0), "C13.nobody_subscribed_nobody_notified", stepName, kn)
		verifnd.Assert(verifnd.Implies(!present[i], n == 0), "C13.departed_not_notified", stepName, kn)
		if kind == kCompUpdate {
			verifnd.Assert(verifnd.Implies(!subOf[i], n == 0), "C13.update_reaches_subscribers_only", stepName, kn)
		}
		verifnd.Assert(verifnd.Iff(exp, n == 1), "C13.recipients_match_reference", stepName, kn)
	}
	verifnd.Observe("c13", uint64(step), uint64(kind), uint64(actorIdx), verifnd.B2U(sub[0]), verifnd.B2U(sub[1]), verifnd.B2U(sub[2]))
	verifnd.Reach("C13.done")
	verifnd.Reach("C13.step." + stepName)
}

// VerifC13Many: a large session (20 members, all but the author subscribed to the type, on CONCRETE data:
// enumeration, no solver): a component add, update and delete by the author notifies every subscriber exactly
// once each and never the author; an unsubscribed member only sees the add and delete relays addressed to all.
func VerifC13Many() {
	w := newVWorld(0)
	author := w.newConn()
	author.mustJoin("")
	const n = 19
	subs := make([]*vConn, n)
	for i := range subs {
		subs[i] = w.newConn()
		subs[i].mustJoin(author.sid)
	}
	m := author.expectOne(&hagallpb.EntityComponentTypeAddRequest{Type: hagallpb.MsgType_MSG_TYPE_ENTITY_COMPONENT_TYPE_ADD_REQUEST, Timestamp: vts(), RequestId: 8, EntityComponentTypeName: vTypeName},
		hagallpb.MsgType_MSG_TYPE_ENTITY_COMPONENT_TYPE_ADD_RESPONSE, "setup.many.type_add")
	var tr hagallpb.EntityComponentTypeAddResponse
	m.DataTo(&tr)
	tid := tr.EntityComponentTypeId
	unsub := verifnd.Choice(n) // one member stays unsubscribed
	for i, c := range subs {
		if i != unsub {
			c.expectSubscribe(tid)
		}
	}
	e := author.addEntity(false, &hagallpb.Pose{})
	w.drainAll()
	count := func(msgs []hwebsocket.Msg, t hagallpb.MsgType) int { return countType(msgs, t) }
	step := func(req hwebsocket.ProtoMsg, bt hagallpb.MsgType, toAll bool, what string) {
		author.do(req)
		verifnd.FireTickers(vFrame)
		author.pump()
		verifnd.Assert(count(author.drain(), bt) == 0, "C13.many.author_not_notified", what)
		for i, c := range subs {
			got := count(c.drain(), bt)
			want := 1
			if i == unsub && !toAll {
				want = 0
			}
			verifnd.Assert(got == want, "C13.many.each_subscriber_exactly_once", what)
		}
	}
	// add and delete relays go to every member when the type has a subscriber; updates only to subscribers
	step(&hagallpb.EntityComponentAddRequest{Type: hagallpb.MsgType_MSG_TYPE_ENTITY_COMPONENT_ADD_REQUEST, Timestamp: vts(), RequestId: 10, EntityComponentTypeId: tid, EntityId: e, Data: []byte{1}},
		hagallpb.MsgType_MSG_TYPE_ENTITY_COMPONENT_ADD_BROADCAST, true, "add")
	author.dispatch(&hagallpb.EntityComponentUpdate{Type: hagallpb.MsgType_MSG_TYPE_ENTITY_COMPONENT_UPDATE, Timestamp: vts(), EntityComponentTypeId: tid, EntityId: e, Data: []byte{2}})
	step(&hagallpb.Request{Type: hagallpb.MsgType_MSG_TYPE_PING_REQUEST, Timestamp: vts(), RequestId: 11},
		hagallpb.MsgType_MSG_TYPE_ENTITY_COMPONENT_UPDATE_BROADCAST, false, "update")
	step(&hagallpb.EntityComponentDeleteRequest{Type: hagallpb.MsgType_MSG_TYPE_ENTITY_COMPONENT_DELETE_REQUEST, Timestamp: vts(), RequestId: 12, EntityComponentTypeId: tid, EntityId: e},
		hagallpb.MsgType_MSG_TYPE_ENTITY_COMPONENT_DELETE_BROADCAST, true, "delete")
	verifnd.Reach("C13.many.done")
}
