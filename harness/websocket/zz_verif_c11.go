//go:build verif

package websocket

import (
	"github.com/aukilabs/hagall-common/messages/hagallpb"
	hwebsocket "github.com/aukilabs/hagall-common/websocket"
	"github.com/aukilabs/hagall/internal/verifnd"
	"google.golang.org/protobuf/types/known/timestamppb"
)

// pump consumes everything the connection's scheduler has queued, as the main loop would.
func (c *vConn) pump() {
	for len(c.h.consumer.Messages()) != 0 {
		m := <-c.h.consumer.Messages()
		c.h.handleMessage(c.w.ctx, m, c.resp)
	}
}

func (c *vConn) pumpOne() {
	if len(c.h.consumer.Messages()) != 0 {
		m := <-c.h.consumer.Messages()
		c.h.handleMessage(c.w.ctx, m, c.resp)
	}
}

// dispatch hands a client message to the real scheduler, as the receiver goroutine does.
func (c *vConn) dispatch(req hwebsocket.ProtoMsg) {
	msg, err := hwebsocket.MsgFromProto(req)
	if err != nil {
		panic("harness built an unencodable request")
	}
	e := c.h.dispatcher.Dispatch(c.w.ctx, msg)
	verifnd.Assert(e == nil, "setup.dispatch.noerror")
}

// VerifC11Poses: an arbitrary bounded schedule of pose dispatches (two own entities, a foreign one, an
// unknown one, with or without pose), frame ticks, consumption steps and an entity delete, through the real
// scheduler and the session's real frame worker.
func VerifC11Poses() {
	w := newVWorld(0)
	own, obs := w.newConn(), w.newConn()
	obs.mustJoin("")
	if verifnd.Bool() {
		// the owner was in a session of its own before, where it moved an entity of its own (same numeric ids as
		// the entities it will own in the observed session)
		own.mustJoin("")
		pe := own.addEntity(verifnd.Bool(), &hagallpb.Pose{})
		own.dispatch(&hagallpb.EntityUpdatePose{Type: hagallpb.MsgType_MSG_TYPE_ENTITY_UPDATE_POSE, Timestamp: vts(), EntityId: pe, Pose: &hagallpb.Pose{Px: -5}})
		verifnd.FireTickers(vFrame)
		own.pump()
		own.drain()
	}
	own.mustJoin(obs.sid)
	e1 := own.addEntity(false, &hagallpb.Pose{})
	e2 := own.addEntity(false, &hagallpb.Pose{})
	ef := obs.addEntity(false, &hagallpb.Pose{})
	w.drainAll()

	steps := 3
	if verifnd.Tier() == 1 {
		steps = 4
	}
	seq := float32(0)
	deleted := map[uint32]bool{}
	var pending, pendingPose [2]bool
	var pendingSeq [2]float32
	latest := map[uint32]float32{e1: 0, e2: 0}
	// flush: what a frame tick hands to the main loop is what the entity will be set to when consumed
	flush := func() {
		for i, e := range []uint32{e1, e2} {
			if pending[i] {
				if pendingPose[i] && !deleted[e] {
					latest[e] = pendingSeq[i]
				}
				pending[i] = false
			}
		}
	}
	lastSeen := map[uint32]float32{e1: 0, e2: 0}
	delSeen := map[uint32]bool{}
	var extra []uint32
	var extraPx []float32
	observe := func() {
		for _, m := range obs.drain() {
			switch typeNum(m) {
			case 15:
				var b hagallpb.EntityUpdatePoseBroadcast
				m.DataTo(&b)
				if b.EntityId != e1 && b.EntityId != e2 {
					// an id the solver chose: legitimate only if it is the entity the owner created meanwhile
					extra = append(extra, b.EntityId)
					if b.Pose != nil {
						extraPx = append(extraPx, b.Pose.Px)
					}
				}
				if b.EntityId == e1 || b.EntityId == e2 {
					verifnd.Assert(b.Pose != nil, "C11.relay_carries_pose")
					if b.Pose != nil {
						verifnd.Assert(b.Pose.Px > lastSeen[b.EntityId], "C11.never_reordered_or_repeated")
						lastSeen[b.EntityId] = b.Pose.Px
					}
					verifnd.Assert(!delSeen[b.EntityId], "C11.nothing_after_delete_relayed")
				}
			case 13:
				var b hagallpb.EntityDeleteBroadcast
				m.DataTo(&b)
				delSeen[b.EntityId] = true
			}
		}
	}
	for i := 0; i < steps; i++ {
		switch verifnd.Choice(5) {
		case 4: // a whole frame: tick, then the main loop consumes what was flushed
			verifnd.FireTickers(vFrame)
			flush()
			own.pump()
		case 0: // a pose update for an own entity (with or without pose), or for an arbitrary other id
			var eid uint32
			switch verifnd.Choice(3) {
			case 0:
				eid = e1
			case 1:
				eid = e2
			default:
				eid = verifnd.U32() // foreign or unknown: decided by the solver
				verifnd.Assume(verifnd.And(eid != e1, eid != e2))
			}
			seq++
			var pose *hagallpb.Pose
			if verifnd.Bool() {
				pose = &hagallpb.Pose{Px: seq}
			}
			// the client's timestamp is arbitrary (clocks jump): recency is the order of sending, not this field
			own.dispatch(&hagallpb.EntityUpdatePose{Type: hagallpb.MsgType_MSG_TYPE_ENTITY_UPDATE_POSE, Timestamp: symValidTS(), EntityId: eid, Pose: pose})
			// reference: the scheduler keeps the last update per entity id; an update without pose is dropped when
			// processed, so the entity keeps the last pose that was processed
			if eid == e1 {
				pending[0], pendingPose[0], pendingSeq[0] = true, pose != nil, seq
			} else if eid == e2 {
				pending[1], pendingPose[1], pendingSeq[1] = true, pose != nil, seq
			}
		case 1: // the session's frame worker ticks: pending updates are flushed to the queue
			verifnd.FireTickers(vFrame)
			flush()
		case 2: // the main loop consumes everything queued
			own.pump()
		case 3: // the owner deletes e2 (through the scheduler, like any request)
			if !deleted[e2] {
				own.dispatch(&hagallpb.EntityDeleteRequest{Type: hagallpb.MsgType_MSG_TYPE_ENTITY_DELETE_REQUEST, Timestamp: vts(), RequestId: 3, EntityId: e2})
				deleted[e2] = true
				if verifnd.Bool() {
					// ... and creates a new entity right away: whatever id it gets, updates still pending for the
					// deleted one must not reach it
					own.dispatch(&hagallpb.EntityAddRequest{Type: hagallpb.MsgType_MSG_TYPE_ENTITY_ADD_REQUEST, Timestamp: vts(), RequestId: 4, Pose: &hagallpb.Pose{Px: -7}})
				}
			}
		}
		observe()
	}
	// within a few frames the most recent pose is relayed and is what newcomers are handed
	verifnd.FireTickers(vFrame)
	flush()
	own.pump()
	verifnd.FireTickers(vFrame)
	flush()
	own.pump()
	observe()
	p := w.newConn()
	handed := viewFromJoin(p.join(own.sid, 9))
	for _, e := range []uint32{e1, e2} {
		if deleted[e] {
			verifnd.Assert(handed.entIdx(e) < 0, "C11.deleted_entity_gone")
			continue
		}
		verifnd.Assert(lastSeen[e] == latest[e], "C11.latest_pose_relayed")
		j := handed.entIdx(e)
		verifnd.Assert(j >= 0, "C11.entity_handed")
		if j >= 0 {
			verifnd.Assert(handed.ents[j].pose[0] == latest[e], "C11.latest_pose_handed_to_newcomer")
		}
	}
	for _, id := range extra {
		k := handed.entIdx(id)
		verifnd.Assert(k >= 0 && handed.ents[k].owner == own.pid, "C11.only_own_existing_entities_relayed")
	}
	j := handed.entIdx(ef)
	verifnd.Assert(j >= 0 && handed.ents[j].pose[0] == 0, "C11.foreign_update_has_no_effect")
	verifnd.Observe("c11", uint64(seq), uint64(lastSeen[e1]), uint64(lastSeen[e2]))
	verifnd.Reach("C11.poses.done")
}

// VerifC11Par: sessions being joined and left while pose updates flow: a member leaves while a newcomer
// joins (every interleaving at lock granularity); afterwards the newcomer's pose updates are still flushed by
// the frame worker and relayed, and the remaining owner's too.
func VerifC11Par() {
	w := newVWorld(0)
	obs, leaver, newc := w.newConn(), w.newConn(), w.newConn()
	obs.mustJoin("")
	leaver.mustJoin(obs.sid)
	sid := obs.sid
	eo := obs.addEntity(false, &hagallpb.Pose{})
	w.drainAll()
	verifnd.Par(func() { leaver.rh.HandleDisconnect(nil) }, func() { newc.join(sid, 2) })
	verifnd.Assert(newc.pid != 0, "setup.c11par.joined")
	w.drainAll()
	en := newc.addEntity(false, &hagallpb.Pose{})
	w.drainAll()
	newc.dispatch(&hagallpb.EntityUpdatePose{Type: hagallpb.MsgType_MSG_TYPE_ENTITY_UPDATE_POSE, Timestamp: vts(), EntityId: en, Pose: &hagallpb.Pose{Px: 3}})
	obs.dispatch(&hagallpb.EntityUpdatePose{Type: hagallpb.MsgType_MSG_TYPE_ENTITY_UPDATE_POSE, Timestamp: vts(), EntityId: eo, Pose: &hagallpb.Pose{Px: 4}})
	verifnd.FireTickers(vFrame)
	newc.pump()
	obs.pump()
	verifnd.FireTickers(vFrame)
	newc.pump()
	obs.pump()
	verifnd.Assert(countType(obs.drain(), hagallpb.MsgType_MSG_TYPE_ENTITY_UPDATE_POSE_BROADCAST) == 1, "C11.par.newcomer_pose_relayed")
	verifnd.Assert(countType(newc.drain(), hagallpb.MsgType_MSG_TYPE_ENTITY_UPDATE_POSE_BROADCAST) == 1, "C11.par.member_pose_relayed")
	verifnd.Reach("C11.par.done")
}

// VerifC11Components: component updates go through the same frame scheduler (coalesced per (type, entity)):
// the subscriber sees the sequence numbers of each component strictly increasing and, after two more frames,
// the latest one; the stored component is the latest one.
func VerifC11Components() {
	w := newVWorld(0)
	own, obs := w.newConn(), w.newConn()
	obs.mustJoin("")
	own.mustJoin(obs.sid)
	e1 := own.addEntity(false, &hagallpb.Pose{})
	e2 := own.addEntity(false, &hagallpb.Pose{})
	m := own.expectOne(&hagallpb.EntityComponentTypeAddRequest{Type: hagallpb.MsgType_MSG_TYPE_ENTITY_COMPONENT_TYPE_ADD_REQUEST, Timestamp: vts(), RequestId: 8, EntityComponentTypeName: vTypeName},
		hagallpb.MsgType_MSG_TYPE_ENTITY_COMPONENT_TYPE_ADD_RESPONSE, "setup.type_add")
	var tr hagallpb.EntityComponentTypeAddResponse
	m.DataTo(&tr)
	tid := tr.EntityComponentTypeId
	obs.expectSubscribe(tid)
	for _, e := range []uint32{e1, e2} {
		own.expectOne(&hagallpb.EntityComponentAddRequest{Type: hagallpb.MsgType_MSG_TYPE_ENTITY_COMPONENT_ADD_REQUEST, Timestamp: vts(), RequestId: 10, EntityComponentTypeId: tid, EntityId: e, Data: []byte{0}},
			hagallpb.MsgType_MSG_TYPE_ENTITY_COMPONENT_ADD_RESPONSE, "setup.comp_add")
	}
	w.drainAll()
	steps := 3
	if verifnd.Tier() == 1 {
		steps = 4
	}
	seq := byte(0)
	latest := map[uint32]byte{e1: 0, e2: 0}
	pend := map[uint32]byte{}
	seen := map[uint32]byte{e1: 0, e2: 0}
	flush := func() {
		for e, v := range pend {
			latest[e] = v
			delete(pend, e)
		}
	}
	observe := func() {
		for _, msg := range obs.drain() {
			if typeNum(msg) != int32(hagallpb.MsgType_MSG_TYPE_ENTITY_COMPONENT_UPDATE_BROADCAST) {
				verifnd.Assert(false, "C11.comp.only_updates_relayed")
				continue
			}
			var b hagallpb.EntityComponentUpdateBroadcast
			msg.DataTo(&b)
			c := b.EntityComponent
			verifnd.Assert(c != nil && c.EntityComponentTypeId == tid && (c.EntityId == e1 || c.EntityId == e2) && len(c.Data) == 1, "C11.comp.well_formed")
			if c != nil && len(c.Data) == 1 && (c.EntityId == e1 || c.EntityId == e2) {
				verifnd.Assert(c.Data[0] > seen[c.EntityId], "C11.comp.never_reordered_or_repeated")
				seen[c.EntityId] = c.Data[0]
			}
		}
	}
	for i := 0; i < steps; i++ {
		switch verifnd.Choice(4) {
		case 0: // an update of one of the two components, or of a component that does not exist
			e := e1
			switch verifnd.Choice(3) {
			case 1:
				e = e2
			case 2:
				e = 4242
			}
			seq++
			own.dispatch(&hagallpb.EntityComponentUpdate{Type: hagallpb.MsgType_MSG_TYPE_ENTITY_COMPONENT_UPDATE, Timestamp: vts(), EntityComponentTypeId: tid, EntityId: e, Data: []byte{seq}})
			if e != 4242 {
				pend[e] = seq
			}
		case 1:
			verifnd.FireTickers(vFrame)
			flush()
		case 2:
			own.pump()
		case 3:
			verifnd.FireTickers(vFrame)
			flush()
			own.pump()
		}
		observe()
	}
	verifnd.FireTickers(vFrame)
	flush()
	own.pump()
	verifnd.FireTickers(vFrame)
	own.pump()
	observe()
	lm := obs.expectOne(&hagallpb.EntityComponentListRequest{Type: hagallpb.MsgType_MSG_TYPE_ENTITY_COMPONENT_LIST_REQUEST, Timestamp: vts(), RequestId: 5, EntityComponentTypeId: tid},
		hagallpb.MsgType_MSG_TYPE_ENTITY_COMPONENT_LIST_RESPONSE, "setup.list")
	var lr hagallpb.EntityComponentListResponse
	lm.DataTo(&lr)
	verifnd.Assert(len(lr.EntityComponents) == 2, "C11.comp.two_components_stored")
	for _, c := range lr.EntityComponents {
		verifnd.Assert(len(c.Data) == 1 && c.Data[0] == latest[c.EntityId], "C11.comp.latest_stored")
	}
	for _, e := range []uint32{e1, e2} {
		verifnd.Assert(seen[e] == latest[e], "C11.comp.latest_relayed")
	}
	verifnd.Reach("C11.comp.done")
}

// symValidTS: an arbitrary timestamp within protobuf's valid range.
func symValidTS() *timestamppb.Timestamp {
	t := symTS()
	assumeValidTS(t.Seconds, t.Nanos)
	return t
}
