//go:build verif

package websocket

import (
	"github.com/aukilabs/hagall-common/messages/hagallpb"
	"github.com/aukilabs/hagall-common/messages/odalpb"
	"github.com/aukilabs/hagall/internal/verifnd"
)

// VerifC05Owner: every (requester, entity) pair for the three owner-only operations. A non-owner is
// refused (pose: silently dropped), nobody is told anything and a newcomer is handed the unchanged state.
func VerifC05Owner() {
	s := newStepWorld(stepShape{mods: vModVikja | vModOdal, symIDs: true, prior: verifnd.Bool()})
	if s.hasAction {
		assumeValidTS(s.actSec, s.actNanos)
	}
	// a connection that created a persistent entity in A, exercised its owner-only operations on it, left A for
	// a session of its own and came back: it is a new participant now and owns nothing
	ret := s.w.newConn()
	ret.mustJoin(s.a0.sid)
	eRet := ret.addEntity(true, symPose())
	ret.do(&hagallpb.EntityUpdatePose{Type: hagallpb.MsgType_MSG_TYPE_ENTITY_UPDATE_POSE, Timestamp: vts(), EntityId: eRet, Pose: &hagallpb.Pose{Px: 1}})
	ret.do(&odalpb.AssetInstanceAddRequest{Type: odalpb.MsgType_MSG_TYPE_ODAL_ASSET_INSTANCE_ADD_REQUEST, Timestamp: vts(), RequestId: 31, EntityId: eRet, AssetId: "ret-asset"})
	retOldPid := ret.pid
	ret.mustJoin("")
	ret.mustJoin(s.a0.sid)
	verifnd.Assert(ret.pid != retOldPid, "C05.participant_id_never_reissued")
	// a participant that joined after the owner of ePers left
	late := s.w.newConn()
	late.mustJoin(s.a0.sid)
	verifnd.Assert(late.pid != s.dPid && late.pid != s.a0.pid && late.pid != s.a1.pid && late.pid != s.a2.pid, "C05.participant_id_never_reissued")
	s.w.drainAll()
	p1, view := s.probe(s.a0.sid)
	s.w.drainAll()

	var actor *vConn
	var ownsEid func(uint32) bool
	who := verifnd.Choice(4)
	whoName := "owner"
	switch who {
	case 0:
		actor, ownsEid = s.a0, func(e uint32) bool { return e == s.eOwn }
	case 1:
		actor, whoName, ownsEid = s.a1, "other_member", func(e uint32) bool { return e == s.eOther }
	case 2:
		actor, whoName, ownsEid = late, "late_joiner", func(e uint32) bool { return false }
	case 3:
		actor, whoName, ownsEid = ret, "returned_creator", func(e uint32) bool { return false }
	}
	ops := []int{kEntityDelete, kUpdatePose, kAssetAdd}
	kind := ops[verifnd.Choice(3)]
	kn := kindName(kind)
	r := buildRequest(kind, false)
	err := actor.do(r.msg)
	verifnd.Assert(err == nil, "C05.noerror", whoName, kn)
	owner := ownsEid(r.eid)
	exists := verifnd.Or(r.eid == s.eOwn, r.eid == s.eOther, r.eid == s.ePers, r.eid == eRet)

	own := actor.drain()
	nOK, nErr := 0, 0
	var code uint32
	for _, m := range own {
		if _, c, ok := decodeError(m); ok {
			nErr++
			code = uint32(c)
		} else if typeNum(m) == successType(kind) && successType(kind) != 0 {
			nOK++
		}
	}
	if kind == kUpdatePose {
		verifnd.Assert(len(own) == 0, "C05.pose.silent", whoName)
	} else {
		verifnd.Assert(verifnd.Implies(!owner, nOK == 0 && nErr == 1), "C05.non_owner.refused", whoName, kn)
		if nErr == 1 && kind == kEntityDelete {
			verifnd.Assert(verifnd.Implies(verifnd.And(exists, !owner), code == uint32(codeUnauth)), "C05.non_owner.unauthorized_code", whoName, kn)
		}
	}
	// what the others were told
	told := 0
	for _, c := range []*vConn{s.a0, s.a1, s.a2, late, ret, p1} {
		if c == actor {
			continue
		}
		for _, m := range c.drain() {
			told++
			if c == p1 {
				verifnd.Assert(view.apply(m, 0), "C05.broadcast.applicable", whoName, kn)
			}
		}
	}
	verifnd.Assert(verifnd.Implies(!owner, told == 0), "C05.non_owner.nobody_told", whoName, kn)
	if told == 0 {
		_, handed := s.probe(s.a0.sid)
		for _, m := range p1.drain() {
			view.apply(m, 0)
		}
		verifnd.Assert(verifnd.And(view.sameEntities(handed), view.sameAssets(handed), view.sameActions(handed), view.sameComponents(handed, s.tReg)), "C05.refused.state_unchanged", whoName, kn)
	}
	verifnd.Observe("c05", uint64(who), uint64(kind), uint64(told), uint64(nOK), uint64(nErr))
	verifnd.Reach("C05.done")
	verifnd.Reach("C05.who." + whoName)
}
