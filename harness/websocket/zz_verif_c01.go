//go:build verif

package websocket

import (
	"github.com/aukilabs/hagall-common/messages/hagallpb"
	"github.com/aukilabs/hagall-common/messages/odalpb"
	"github.com/aukilabs/hagall-common/messages/vikjapb"
	hwebsocket "github.com/aukilabs/hagall-common/websocket"
	"github.com/aukilabs/hagall/internal/verifnd"
)

// kDisconnect is a pseudo kind: the actor's connection ends (HandleDisconnect), used by C01/C02/C06.
const kDisconnect = numKinds

// actOn performs the step: an arbitrary request of the kind, or the end of the connection.
func (s *stepWorld) actOn(actor *vConn, kind int, allowNilSub bool) (*stepReq, *stepOut) {
	if kind == kDisconnect {
		actor.rh.HandleDisconnect(nil)
		o := &stepOut{}
		o.own, o.m1, o.m2 = s.a0.drain(), s.a1.drain(), s.a2.drain()
		o.ob, o.on = s.b0.drain(), s.n0.drain()
		return &stepReq{kind: kDisconnect}, o
	}
	r := buildRequest(kind, allowNilSub)
	if r.actTS != nil {
		assumeValidTS(r.actTS.Seconds, r.actTS.Nanos)
	}
	return r, s.run(actor, r)
}

func stepKindName(k int) string {
	if k == kDisconnect {
		return "disconnect"
	}
	return kindName(k)
}

// VerifC01Step: probe P1 joins (and maybe subscribes), a0 performs one arbitrary step, probe P2 joins.
// P1's view after applying every broadcast it was sent must equal what P2 is handed, and every broadcast
// P1 was sent must have been applicable to its view.
func VerifC01Step() {
	c01Step(stepShape{mods: vModVikja | vModOdal, preset: verifnd.Choice(3), symIDs: true, prior: verifnd.Bool()})
}

// VerifC01StepFree: same with every presence bit of the pre-state chosen freely and no modules / all modules.
func VerifC01StepFree() {
	mods := 0
	if verifnd.Bool() {
		mods = vModVikja | vModOdal
	}
	c01Step(stepShape{mods: mods, freeBits: true})
}

func c01Step(sh stepShape) {
	s := newStepWorld(sh)
	if s.hasAction {
		assumeValidTS(s.actSec, s.actNanos)
	}
	p1, view := s.probe(s.a0.sid)
	verifnd.Assert(view.gotSession == 1, "C01.joiner.handed_session_state")
	if sh.mods&vModVikja != 0 {
		verifnd.Assert(view.gotVikja == 1, "C01.joiner.handed_vikja_state")
	}
	if sh.mods&vModOdal != 0 {
		verifnd.Assert(view.gotOdal == 1, "C01.joiner.handed_odal_state")
	}
	verifnd.Assert(view.selfConsistent(), "C01.handed_state.self_consistent", "p1")
	var syncT uint32
	if verifnd.Bool() {
		p1.expectSubscribe(s.tReg)
		syncT = s.tReg
	}
	s.w.drainAll()

	kind := verifnd.Choice(kQuadSample + 1)
	if kind == kQuadSample {
		kind = kDisconnect
	}
	kn := stepKindName(kind)
	req, out := s.actOn(s.a0, kind, kind == kAction)

	for _, m := range p1.drain() {
		ok := view.apply(m, syncT)
		verifnd.Assert(ok, "C01.broadcast.applicable", kn, msgTypeName(m))
	}
	p2, handed := s.probe(s.a0.sid)
	_ = p2
	for _, m := range p1.drain() {
		ok := view.apply(m, syncT)
		verifnd.Assert(ok, "C01.broadcast.applicable", kn, "after_join")
	}
	verifnd.Assert(handed.gotSession == 1, "C01.newcomer.handed_session_state", kn)
	verifnd.Assert(handed.selfConsistent(), "C01.handed_state.self_consistent", kn)
	verifnd.Assert(view.sameParticipants(handed), "C01.view.participants", kn)
	verifnd.Assert(view.sameEntities(handed), "C01.view.entities", kn)
	if syncT != 0 {
		verifnd.Assert(view.sameComponents(handed, syncT), "C01.view.components", kn)
	}
	if sh.mods&vModVikja != 0 {
		verifnd.Assert(view.sameActions(handed), "C01.view.actions", kn)
	}
	if sh.mods&vModOdal != 0 {
		verifnd.Assert(view.sameAssets(handed), "C01.view.assets", kn)
	}
	// the requester's own view: a request answered with success took effect as it was sent
	if kind == kAction && req.hasSub && countType(out.own, hagallpb.MsgType(vikjapb.MsgType_MSG_TYPE_VIKJA_ENTITY_ACTION_RESPONSE)) == 1 {
		verifnd.Assert(handed.actIdx(req.eid, req.name) >= 0, "C01.accepted_request_reflected_as_sent", kn)
	}
	if kind == kAssetAdd && countType(out.own, hagallpb.MsgType(odalpb.MsgType_MSG_TYPE_ODAL_ASSET_INSTANCE_ADD_RESPONSE)) == 1 {
		j := handed.assetIdx(req.eid)
		verifnd.Assert(j >= 0 && handed.assets[j].assetID == req.name, "C01.accepted_request_reflected_as_sent", kn)
	}
	verifnd.Observe("c01", uint64(kind), uint64(len(handed.parts)), uint64(len(handed.ents)), uint64(len(handed.comps)), uint64(len(handed.acts)), uint64(len(handed.assets)))
	verifnd.Reach("C01.step.done")
	verifnd.Reach("C01.kind." + kn)
}

func msgTypeName(m hwebsocket.Msg) string {
	switch typeNum(m) {
	case 5:
		return "join_broadcast"
	case 7:
		return "leave_broadcast"
	case 10:
		return "entity_add_broadcast"
	case 13:
		return "entity_delete_broadcast"
	case 15:
		return "pose_broadcast"
	case 17:
		return "custom_broadcast"
	case 26:
		return "component_add_broadcast"
	case 29:
		return "component_delete_broadcast"
	case 31:
		return "component_update_broadcast"
	case 103:
		return "action_broadcast"
	case 203:
		return "asset_broadcast"
	}
	return "other"
}
