//go:build verif

package websocket

import (
	"github.com/aukilabs/hagall-common/messages/hagallpb"
	"github.com/aukilabs/hagall-common/messages/odalpb"
	"github.com/aukilabs/hagall-common/messages/vikjapb"
	hwebsocket "github.com/aukilabs/hagall-common/websocket"
	"github.com/aukilabs/hagall/internal/verifnd"
)

// VerifC06Leave: the leaver owns up to three entities with arbitrary persist flags and attachments and
// leaves in one of the ways a handler can leave a session (connection end, switch to an existing session,
// switch to a new session, refused switch).
func VerifC06Leave() {
	w := newVWorld(vModVikja | vModOdal)
	lv, m1, m2, b0 := w.newConn(), w.newConn(), w.newConn(), w.newConn()
	m1.mustJoin("")
	lv.mustJoin(m1.sid)
	m2.mustJoin(m1.sid)
	b0.mustJoin("")
	sid := m1.sid

	tid := func() uint32 {
		m := m1.expectOne(&hagallpb.EntityComponentTypeAddRequest{Type: hagallpb.MsgType_MSG_TYPE_ENTITY_COMPONENT_TYPE_ADD_REQUEST, Timestamp: vts(), RequestId: 8, EntityComponentTypeName: vTypeName},
			hagallpb.MsgType_MSG_TYPE_ENTITY_COMPONENT_TYPE_ADD_RESPONSE, "setup.type_add")
		var tr hagallpb.EntityComponentTypeAddResponse
		m.DataTo(&tr)
		return tr.EntityComponentTypeId
	}()
	// a second component type: the leaver's entities carry one component of each, and the leaver may have
	// deleted the first one of its first entity itself before leaving
	tid2 := func() uint32 {
		m := m1.expectOne(&hagallpb.EntityComponentTypeAddRequest{Type: hagallpb.MsgType_MSG_TYPE_ENTITY_COMPONENT_TYPE_ADD_REQUEST, Timestamp: vts(), RequestId: 9, EntityComponentTypeName: "second-type"},
			hagallpb.MsgType_MSG_TYPE_ENTITY_COMPONENT_TYPE_ADD_RESPONSE, "setup.type_add2")
		var tr hagallpb.EntityComponentTypeAddResponse
		m.DataTo(&tr)
		return tr.EntityComponentTypeId
	}()
	nEnt := 2
	if verifnd.Tier() == 1 {
		nEnt = 3
	}
	n := 1 + verifnd.Choice(nEnt)
	ids := make([]uint32, n)
	pers := make([]bool, n)
	// without attachments; with all of them made by the owner; or with the entity action (which needs no
	// ownership) set by another member, so that the leaver itself never used the action module
	attachMode := verifnd.Choice(3)
	attach := attachMode != 0
	for i := 0; i < n; i++ {
		pers[i] = verifnd.SymBool()
		ids[i] = lv.addEntity(pers[i], symPose())
		if attach {
			lv.expectOne(&hagallpb.EntityComponentAddRequest{Type: hagallpb.MsgType_MSG_TYPE_ENTITY_COMPONENT_ADD_REQUEST, Timestamp: vts(), RequestId: 10, EntityComponentTypeId: tid, EntityId: ids[i], Data: verifnd.Bytes(8)},
				hagallpb.MsgType_MSG_TYPE_ENTITY_COMPONENT_ADD_RESPONSE, "setup.comp_add")
			lv.expectOne(&hagallpb.EntityComponentAddRequest{Type: hagallpb.MsgType_MSG_TYPE_ENTITY_COMPONENT_ADD_REQUEST, Timestamp: vts(), RequestId: 10, EntityComponentTypeId: tid2, EntityId: ids[i], Data: verifnd.Bytes(8)},
				hagallpb.MsgType_MSG_TYPE_ENTITY_COMPONENT_ADD_RESPONSE, "setup.comp_add2")
			setter := lv
			if attachMode == 2 {
				setter = m2
			}
			setter.expectOne(&vikjapb.EntityActionRequest{Type: vikjapb.MsgType_MSG_TYPE_VIKJA_ENTITY_ACTION_REQUEST, Timestamp: vts(), RequestId: 11,
				EntityAction: &vikjapb.EntityAction{EntityId: ids[i], Name: "act", Timestamp: vts()}},
				hagallpb.MsgType(vikjapb.MsgType_MSG_TYPE_VIKJA_ENTITY_ACTION_RESPONSE), "setup.action")
			lv.expectOne(&odalpb.AssetInstanceAddRequest{Type: odalpb.MsgType_MSG_TYPE_ODAL_ASSET_INSTANCE_ADD_REQUEST, Timestamp: vts(), RequestId: 12, EntityId: ids[i], AssetId: "asset"},
				hagallpb.MsgType(odalpb.MsgType_MSG_TYPE_ODAL_ASSET_INSTANCE_ADD_RESPONSE), "setup.asset")
		}
	}
	deletedOne := false
	if attach && verifnd.Bool() {
		deletedOne = true
		lv.expectOne(&hagallpb.EntityComponentDeleteRequest{Type: hagallpb.MsgType_MSG_TYPE_ENTITY_COMPONENT_DELETE_REQUEST, Timestamp: vts(), RequestId: 13, EntityComponentTypeId: tid, EntityId: ids[0]},
			hagallpb.MsgType_MSG_TYPE_ENTITY_COMPONENT_DELETE_RESPONSE, "setup.comp_delete")
	}
	// an entity of a remaining member, with attachments, must be untouched
	keep := m1.addEntity(false, symPose())
	m1.expectOne(&hagallpb.EntityComponentAddRequest{Type: hagallpb.MsgType_MSG_TYPE_ENTITY_COMPONENT_ADD_REQUEST, Timestamp: vts(), RequestId: 10, EntityComponentTypeId: tid, EntityId: keep, Data: verifnd.Bytes(8)},
		hagallpb.MsgType_MSG_TYPE_ENTITY_COMPONENT_ADD_RESPONSE, "setup.comp_add_keep")
	// subscriptions: the leaver is subscribed; m2 may be
	lv.expectSubscribe(tid)
	sub2 := verifnd.Bool()
	if sub2 {
		m2.expectSubscribe(tid)
	}
	w.drainAll()

	how := verifnd.Choice(4)
	howName := "disconnect"
	switch how {
	case 0:
		lv.rh.HandleDisconnect(nil)
	case 1:
		howName = "switch_existing"
		lv.mustJoin(b0.sid)
	case 2:
		howName = "switch_new"
		lv.mustJoin("")
	case 3:
		howName = "refused_switch"
		lv.join("no-such-session", 3)
	}
	if how == 3 && len(m1.sendQueue()) == 0 {
		// the refused switch did not make the participant leave: then nothing at all may have changed
		verifnd.Assert(len(m2.sendQueue()) == 0, "C06.refused_switch.all_or_nothing")
		pr := w.newConn()
		hv := viewFromJoin(pr.join(sid, 9))
		stillMember := hv.hasPart(lv.pid)
		verifnd.Assert(stillMember, "C06.refused_switch.all_or_nothing")
		for k := 0; k < n; k++ {
			verifnd.Assert(hv.entIdx(ids[k]) >= 0, "C06.refused_switch.all_or_nothing")
		}
		verifnd.Reach("C06.done")
		verifnd.Reach("C06.how." + howName)
		return
	}

	for i, c := range []*vConn{m1, m2} {
		got := c.drain()
		nLeave := 0
		for _, m := range got {
			if typeNum(m) == int32(hagallpb.MsgType_MSG_TYPE_PARTICIPANT_LEAVE_BROADCAST) {
				nLeave++
			}
		}
		verifnd.Assert(nLeave == 1, "C06.remaining.told_once_about_departure", howName, memberName(i))
		for k := 0; k < n; k++ {
			nDel := 0
			for _, m := range got {
				if typeNum(m) == int32(hagallpb.MsgType_MSG_TYPE_ENTITY_DELETE_BROADCAST) {
					var b hagallpb.EntityDeleteBroadcast
					if m.DataTo(&b) == nil && b.EntityId == ids[k] {
						nDel++
					}
				}
			}
			verifnd.Assert(nDel <= 1, "C06.remaining.told_at_most_once_per_entity", howName)
			verifnd.Assert(verifnd.Iff(!pers[k], nDel == 1), "C06.remaining.told_once_per_removed_entity", howName)
		}
		nOther := 0
		for _, m := range got {
			t := typeNum(m)
			if t != int32(hagallpb.MsgType_MSG_TYPE_ENTITY_DELETE_BROADCAST) && t != int32(hagallpb.MsgType_MSG_TYPE_PARTICIPANT_LEAVE_BROADCAST) {
				nOther++
			}
		}
		verifnd.Assert(nOther == 0, "C06.remaining.told_nothing_else", howName)
		// leave is told after the deletes
		if len(got) > 0 {
			verifnd.Assert(typeNum(got[len(got)-1]) == int32(hagallpb.MsgType_MSG_TYPE_PARTICIPANT_LEAVE_BROADCAST), "C06.remaining.departure_told_last", howName)
		}
	}
	// what a later joiner is handed
	p := w.newConn()
	handed := viewFromJoin(p.join(sid, 9))
	verifnd.Assert(p.pid != 0, "setup.probe.joined")
	for k := 0; k < n; k++ {
		present := handed.entIdx(ids[k]) >= 0
		verifnd.Assert(verifnd.Iff(pers[k], present), "C06.persistent_survive_others_removed", howName)
		hasC := handed.compIdx(tid, ids[k]) >= 0
		if deletedOne && k == 0 {
			verifnd.Assert(!hasC, "C06.deleted_component_stays_deleted", howName)
			hasC = pers[k] // as far as the first type is concerned; the second type decides below
		}
		hasC2 := handed.compIdx(tid2, ids[k]) >= 0
		if attach {
			verifnd.Assert(verifnd.Implies(pers[k], hasC2), "C06.components_follow_entity", howName, "second_type_kept_with_persistent")
			verifnd.Assert(verifnd.Implies(hasC2, pers[k]), "C06.components_follow_entity", howName, "second_type_removed_with_entity")
			verifnd.Assert(verifnd.Iff(pers[k], hasC2), "C06.components_follow_entity", howName, "second_type_iff")
		} else {
			verifnd.Assert(!hasC2, "C06.no_attachments_appear", howName)
		}
		hasA := handed.actIdx(ids[k], "act") >= 0
		hasI := handed.assetIdx(ids[k]) >= 0
		if attach {
			verifnd.Assert(verifnd.Iff(pers[k], hasC), "C06.components_follow_entity", howName)
			verifnd.Assert(verifnd.Iff(pers[k], hasA), "C06.actions_follow_entity", howName)
			verifnd.Assert(verifnd.Iff(pers[k], hasI), "C06.assets_follow_entity", howName)
		} else {
			verifnd.Assert(!hasC && !hasA && !hasI, "C06.no_attachments_appear", howName)
		}
	}
	verifnd.Assert(handed.entIdx(keep) >= 0 && handed.compIdx(tid, keep) >= 0, "C06.others_entities_untouched", howName)
	verifnd.Assert(handed.selfConsistent(), "C06.handed_state.self_consistent", howName)
	w.drainAll()
	// the leaver's subscription ended: a component update by m1 notifies m2 iff m2 subscribed, and never the leaver
	m1.do(&hagallpb.EntityComponentUpdate{Type: hagallpb.MsgType_MSG_TYPE_ENTITY_COMPONENT_UPDATE, Timestamp: vts(), EntityComponentTypeId: tid, EntityId: keep, Data: verifnd.Bytes(8)})
	nLv := countUpd(lv.drain())
	verifnd.Assert(nLv == 0, "C06.subscriptions_end", howName)
	verifnd.Assert(verifnd.Iff(sub2, countUpd(m2.drain()) == 1), "C06.other_subscriptions_kept", howName)
	verifnd.Assert(countUpd(p.drain()) == 0, "C06.newcomer_not_subscribed", howName)
	verifnd.Observe("c06", uint64(how), uint64(n), uint64(len(handed.ents)), uint64(len(handed.comps)), uint64(len(handed.acts)), uint64(len(handed.assets)))
	verifnd.Reach("C06.done")
	verifnd.Reach("C06.how." + howName)
}

func countUpd(msgs []hwebsocket.Msg) int {
	n := 0
	for _, m := range msgs {
		if typeNum(m) == int32(hagallpb.MsgType_MSG_TYPE_ENTITY_COMPONENT_UPDATE_BROADCAST) {
			n++
		}
	}
	return n
}

// VerifC06Par: a member switches to another session while that session's last member leaves it (the switch
// is then refused after the switcher has already left, or succeeds), and afterwards its connection ends.
// Whatever the interleaving, the members it left are told about its departure exactly once, its entities are
// deleted at most once each, and it is a ghost nowhere.
func VerifC06Par() {
	w := newVWorld(vModVikja | vModOdal)
	lv, m1, t0 := w.newConn(), w.newConn(), w.newConn()
	m1.mustJoin("")
	lv.mustJoin(m1.sid)
	t0.mustJoin("")
	sidS, sidT := m1.sid, t0.sid
	e := lv.addEntity(false, symPose())
	ep := lv.addEntity(true, symPose())
	oldPid := lv.pid
	w.drainAll()
	lv.pid = 0
	verifnd.Par(func() { lv.join(sidT, 3) }, func() { t0.rh.HandleDisconnect(nil) })
	switched := lv.pid != 0
	// the connection ends, however the switch went
	lv.rh.HandleDisconnect(nil)
	got := m1.drain()
	nLeave, nDel, nDelPers := 0, 0, 0
	for _, m := range got {
		switch typeNum(m) {
		case int32(hagallpb.MsgType_MSG_TYPE_PARTICIPANT_LEAVE_BROADCAST):
			var b hagallpb.ParticipantLeaveBroadcast
			if m.DataTo(&b) == nil && b.ParticipantId == oldPid {
				nLeave++
			}
		case int32(hagallpb.MsgType_MSG_TYPE_ENTITY_DELETE_BROADCAST):
			var b hagallpb.EntityDeleteBroadcast
			if m.DataTo(&b) == nil {
				if b.EntityId == e {
					nDel++
				}
				if b.EntityId == ep {
					nDelPers++
				}
			}
		}
	}
	name := "refused_after_leaving"
	if switched {
		name = "switched"
	}
	verifnd.Assert(nLeave == 1, "C06.par.remaining.told_once_about_departure", name)
	verifnd.Assert(nDel == 1 && nDelPers == 0, "C06.par.remaining.told_once_per_removed_entity", name)
	verifnd.Assert(lv.rh.CurrentSession() == nil && lv.rh.CurrentParticipant() == nil, "C06.par.connection_holds_no_session", name)
	// S holds m1 alone plus the persistent entity; T is gone
	p := w.newConn()
	handed := viewFromJoin(p.join(sidS, 9))
	verifnd.Assert(p.pid != 0, "setup.probe.joined")
	verifnd.Assert(!handed.hasPart(oldPid) && len(handed.parts) == 2, "C06.par.no_ghost_in_left_session", name)
	verifnd.Assert(handed.entIdx(e) < 0 && handed.entIdx(ep) >= 0, "C06.par.persistent_survive_others_removed", name)
	_, tAlive := w.store.GetByGlobalID(sidT)
	verifnd.Assert(!tAlive, "C06.par.emptied_session_ended", name)
	verifnd.Reach("C06.par.done")
	verifnd.Reach("C06.par." + name)
}
