//go:build verif

package websocket

import (
	"github.com/aukilabs/hagall-common/messages/hagallpb"
	hwebsocket "github.com/aukilabs/hagall-common/websocket"
	"github.com/aukilabs/hagall/internal/verifnd"
)

// VerifC01Par: a newcomer joins while a member changes the session (entity delete / entity add / component
// add / departure). At quiescence the newcomer's view - its snapshot updated by the broadcasts it received,
// in the order it received them - must equal what a later probe is handed.
func VerifC01Par() {
	s := newStepWorld(stepShape{mods: vModVikja | vModOdal, preset: 0, noFree: true})
	// the newcomer is a fresh connection joining A, or a member of A (a2) that switches to session B while A
	// changes: what it holds afterwards is B's state, and nothing of A's may reach it after B's join answer
	p1 := s.w.newConn()
	target := s.a1.sid
	switcher := verifnd.Bool()
	if switcher {
		p1, target = s.a2, s.b0.sid
	}
	var joinMsgs []hwebsocket.Msg
	what := verifnd.Choice(4)
	whatName := "entity_delete"
	var act func()
	switch what {
	case 0:
		act = func() {
			s.a0.do(&hagallpb.EntityDeleteRequest{Type: hagallpb.MsgType_MSG_TYPE_ENTITY_DELETE_REQUEST, Timestamp: vts(), RequestId: 1, EntityId: s.eOwn})
		}
	case 1:
		whatName = "entity_add"
		act = func() {
			s.a0.do(&hagallpb.EntityAddRequest{Type: hagallpb.MsgType_MSG_TYPE_ENTITY_ADD_REQUEST, Timestamp: vts(), RequestId: 1, Pose: &hagallpb.Pose{}})
		}
	case 2:
		whatName = "pose_update"
		act = func() {
			s.a0.do(&hagallpb.EntityUpdatePose{Type: hagallpb.MsgType_MSG_TYPE_ENTITY_UPDATE_POSE, Timestamp: vts(), EntityId: s.eOwn, Pose: &hagallpb.Pose{Px: 42}})
		}
	case 3:
		whatName = "departure"
		act = func() { s.a0.rh.HandleDisconnect(nil) }
	}
	verifnd.Par(func() { joinMsgs = p1.join(target, 9) }, act)
	verifnd.Assert(p1.pid != 0, "setup.par.joined")
	if switcher {
		whatName += "_while_switching_away"
		// a client discards what it was sent before the answer to its join: that belonged to the session it left
		for len(joinMsgs) > 0 && typeNum(joinMsgs[0]) != 4 {
			joinMsgs = joinMsgs[1:]
		}
	}
	// p1's stream in arrival order: join answer + state messages, then whatever was broadcast to it (join drained
	// its queue at the end of the join; later arrivals are still queued)
	all := append(joinMsgs, p1.drain()...)
	view := &vView{wellFormed: true}
	seenState := false
	var early []hwebsocket.Msg
	for _, m := range all {
		t := typeNum(m)
		switch {
		case t == 2 || t == 100 || t == 200:
			sv := viewFromJoin([]hwebsocket.Msg{m})
			if t == 2 {
				view.parts, view.ents, view.comps = sv.parts, sv.ents, sv.comps
				seenState = true
				// broadcasts that arrived before the snapshot are already reflected in it or not: a client
				// applies what it can
				for _, e := range early {
					view.apply(e, 0)
				}
			}
			if t == 100 {
				view.acts = sv.acts
			}
			if t == 200 {
				view.assets = sv.assets
			}
		case isBroadcastType(t):
			if seenState {
				view.apply(m, 0)
			} else {
				early = append(early, m)
			}
		}
	}
	s.w.drainAll()
	_, handed := s.probe(target)
	for _, m := range p1.drain() {
		view.apply(m, 0)
	}
	verifnd.Assert(view.sameParticipants(handed), "C01.par.view.participants", whatName)
	verifnd.Assert(view.sameEntities(handed), "C01.par.view.entities", whatName)
	verifnd.Assert(view.sameActions(handed), "C01.par.view.actions", whatName)
	verifnd.Assert(view.sameAssets(handed), "C01.par.view.assets", whatName)
	verifnd.Reach("C01.par.done")
	verifnd.Reach("C01.par." + whatName)
}
