//go:build verif

package websocket

import (
	"github.com/aukilabs/hagall-common/messages/hagallpb"
	"github.com/aukilabs/hagall-common/messages/odalpb"
	"github.com/aukilabs/hagall-common/messages/vikjapb"
	hwebsocket "github.com/aukilabs/hagall-common/websocket"
	"github.com/aukilabs/hagall/internal/verifnd"
	"google.golang.org/protobuf/types/known/timestamppb"
)

func isBroadcastType(t int32) bool {
	switch t {
	case 5, 7, 10, 13, 15, 17, 26, 29, 31, 103, 203:
		return true
	}
	return false
}

func sameTS(a, b *timestamppb.Timestamp) bool {
	if a == nil || b == nil {
		return a == nil && b == nil
	}
	return verifnd.And(a.Seconds == b.Seconds, a.Nanos == b.Nanos)
}

// relayType: the broadcast type an accepted request of this kind is relayed as (0 = the kind relays nothing
// that C02 speaks about).
func relayType(k int) int32 {
	switch k {
	case kEntityAdd:
		return 10
	case kEntityDelete:
		return 13
	case kUpdatePose:
		return 15
	case kCustom:
		return 17
	case kAction:
		return 103
	case kAssetAdd:
		return 203
	}
	return 0
}

// VerifC02Step: one arbitrary step by a0; every other member of the session is relayed exactly what
// the accepted change requires, exactly once; a0 itself, the other session and the unjoined connection nothing.
func VerifC02Step() {
	s := newStepWorld(stepShape{mods: vModVikja | vModOdal, preset: verifnd.Choice(2), rejoin: verifnd.Bool(), symIDs: true, prior: verifnd.Bool()})
	if s.hasAction {
		assumeValidTS(s.actSec, s.actNanos)
	}
	kind := verifnd.Choice(kQuadSample + 1)
	if kind == kQuadSample {
		kind = kDisconnect
	}
	kn := stepKindName(kind)
	r, o := s.actOn(s.a0, kind, kind == kAction)

	// never echoed to the participant that caused it
	for _, m := range o.own {
		verifnd.Assert(!isBroadcastType(typeNum(m)), "C02.no_echo", kn, msgTypeName(m))
	}
	verifnd.Assert(len(o.on) == 0, "C02.unjoined.silent", kn)

	var want hagallpb.ErrorCode = codeOK
	if kind != kDisconnect {
		want = s.expectedCode(r)
	}
	accepted := want == codeOK
	switch kind {
	case kUpdatePose:
		accepted = r.eid == s.eOwn
	case kCustom:
		accepted = want == codeNone
	}
	leaves := kind == kDisconnect || (kind == kJoin && accepted)
	rt := relayType(kind)
	members := [][]hwebsocket.Msg{o.m1, o.m2}
	names := []string{"a1", "a2"}
	pids := []uint32{s.a1.pid, s.a2.pid}

	if kind == kJoin && r.name != "" {
		// joined the other session: its member is told once
		verifnd.Assert(verifnd.Iff(r.name == s.b0.sid, countType(o.ob, hagallpb.MsgType_MSG_TYPE_PARTICIPANT_JOIN_BROADCAST) == 1), "C02.join.relayed_to_new_session", kn)
	} else {
		verifnd.Assert(len(o.ob) == 0, "C02.other_session.silent", kn)
	}

	for i, got := range members {
		switch {
		case leaves:
			// exactly one delete per non-persistent entity of the leaver, then exactly one leave
			nDel := countType(got, hagallpb.MsgType_MSG_TYPE_ENTITY_DELETE_BROADCAST)
			nLeave := countType(got, hagallpb.MsgType_MSG_TYPE_PARTICIPANT_LEAVE_BROADCAST)
			verifnd.Assert(nLeave == 1, "C02.leave.relayed_once", kn, names[i])
			verifnd.Assert(verifnd.Iff(!s.ownPersist, nDel == 1), "C02.leave.entity_delete_relayed_once", kn, names[i])
			verifnd.Assert(nDel <= 1 && len(got) == nDel+nLeave, "C02.leave.nothing_else", kn, names[i])
		case kind == kJoin && !accepted:
			verifnd.Assert(len(got) == 0, "C02.refused.relayed_to_no_one", kn, names[i])
		case rt == 0:
			if kind == kCompAdd || kind == kCompDelete || kind == kCompUpdate {
				// component notifications are C13's subject; here: at most one, and only for an accepted change
				verifnd.Assert(len(got) <= 1, "C02.component.at_most_once", kn, names[i])
				if kind != kCompUpdate {
					verifnd.Assert(verifnd.Implies(!accepted, len(got) == 0), "C02.refused.relayed_to_no_one", kn, names[i])
				}
			} else {
				verifnd.Assert(len(got) == 0, "C02.non_relaying_kind.silent", kn, names[i])
			}
		default:
			exp := accepted
			if kind == kCustom && len(r.ids) != 0 {
				named := false
				for _, id := range r.ids {
					named = verifnd.Or(named, id == pids[i])
				}
				exp = verifnd.And(accepted, named)
			}
			n := 0
			for _, m := range got {
				if typeNum(m) == rt {
					n++
				}
			}
			verifnd.Assert(len(got) == n, "C02.only_the_relay", kn, names[i])
			verifnd.Assert(n <= 1, "C02.relayed_at_most_once", kn, names[i])
			verifnd.Assert(verifnd.Iff(exp, n == 1), "C02.relayed_iff_accepted", kn, names[i])
			if n == 1 {
				s.checkRelayContent(kind, r, o, got[0], kn)
			}
		}
	}
	verifnd.Observe("c02", uint64(kind), uint64(len(o.m1)), uint64(len(o.m2)), uint64(len(o.own)))
	verifnd.Reach("C02.step.done")
	verifnd.Reach("C02.kind." + kn)
}

// checkRelayContent: the relay carries the request's ids, body and origin timestamp.
func (s *stepWorld) checkRelayContent(kind int, r *stepReq, o *stepOut, m hwebsocket.Msg, kn string) {
	switch kind {
	case kEntityAdd:
		var b hagallpb.EntityAddBroadcast
		ok := m.DataTo(&b) == nil && b.Entity != nil
		verifnd.Assert(ok, "C02.content.decodes", kn)
		if !ok {
			return
		}
		var newID uint32
		for _, x := range o.own {
			if typeNum(x) == 9 {
				var resp hagallpb.EntityAddResponse
				if x.DataTo(&resp) == nil {
					newID = resp.EntityId
				}
			}
		}
		e := entFromPB(b.Entity)
		hp, pa := poseArr(r.pose)
		want := vEnt{id: newID, owner: s.a0.pid, flag: r.flag, hasPose: true, pose: pa}
		_ = hp
		verifnd.Assert(verifnd.And(e.id == want.id, e.id != 0, e.owner == want.owner, e.flag == want.flag, samePose(e, want)), "C02.content.entity_add", kn)
		verifnd.Assert(sameTS(b.OriginTimestamp, r.ots), "C02.content.origin_timestamp", kn)
	case kEntityDelete:
		var b hagallpb.EntityDeleteBroadcast
		ok := m.DataTo(&b) == nil
		verifnd.Assert(ok && b.EntityId == r.eid, "C02.content.entity_delete", kn)
		verifnd.Assert(sameTS(b.OriginTimestamp, r.ots), "C02.content.origin_timestamp", kn)
	case kUpdatePose:
		var b hagallpb.EntityUpdatePoseBroadcast
		ok := m.DataTo(&b) == nil && b.Pose != nil
		verifnd.Assert(ok, "C02.content.decodes", kn)
		if ok {
			_, pa := poseArr(r.pose)
			_, pb := poseArr(b.Pose)
			verifnd.Assert(verifnd.And(b.EntityId == r.eid, samePose(vEnt{hasPose: true, pose: pa}, vEnt{hasPose: true, pose: pb})), "C02.content.pose", kn)
			verifnd.Assert(sameTS(b.OriginTimestamp, r.ots), "C02.content.origin_timestamp", kn)
		}
	case kCustom:
		var b hagallpb.CustomMessageBroadcast
		ok := m.DataTo(&b) == nil
		verifnd.Assert(ok && b.ParticipantId == s.a0.pid && verifnd.SameBytes(b.Body, r.data), "C02.content.custom", kn)
		verifnd.Assert(sameTS(b.OriginTimestamp, r.ots), "C02.content.origin_timestamp", kn)
	case kAction:
		var b vikjapb.EntityActionBroadcast
		ok := m.DataTo(&b) == nil && b.EntityAction != nil
		verifnd.Assert(ok, "C02.content.decodes", kn)
		if ok {
			a := b.EntityAction
			verifnd.Assert(verifnd.And(a.EntityId == r.eid, a.Name == r.name, sameTS(a.Timestamp, r.actTS), verifnd.SameBytes(a.Data, r.data)), "C02.content.action", kn)
			verifnd.Assert(sameTS(b.OriginTimestamp, r.ots), "C02.content.origin_timestamp", kn)
		}
	case kAssetAdd:
		var b odalpb.AssetInstanceAddBroadcast
		ok := m.DataTo(&b) == nil && b.AssetInstance != nil
		verifnd.Assert(ok, "C02.content.decodes", kn)
		if ok {
			a := b.AssetInstance
			verifnd.Assert(verifnd.And(a.EntityId == r.eid, a.AssetId == r.name, a.ParticipantId == s.a0.pid, a.Id != 0), "C02.content.asset", kn)
			verifnd.Assert(sameTS(b.OriginTimestamp, r.ots), "C02.content.origin_timestamp", kn)
		}
	}
}

// VerifC02Order: two relaying requests by a0 in a row reach every other member in request order.
func VerifC02Order() {
	s := newStepWorld(stepShape{mods: vModVikja | vModOdal, noFree: true})
	if s.hasAction {
		assumeValidTS(s.actSec, s.actNanos)
	}
	relaying := []int{kEntityAdd, kEntityDelete, kCustom, kAction, kAssetAdd}
	k1 := relaying[verifnd.Choice(len(relaying))]
	k2 := relaying[verifnd.Choice(len(relaying))]
	r1 := buildRequest(k1, false)
	r2 := buildRequest(k2, false)
	for _, r := range []*stepReq{r1, r2} {
		if r.actTS != nil {
			assumeValidTS(r.actTS.Seconds, r.actTS.Nanos)
		}
	}
	e1 := s.a0.do(r1.msg)
	e2 := s.a0.do(r2.msg)
	verifnd.Assert(e1 == nil && e2 == nil, "C02.order.noerror")
	for i, c := range []*vConn{s.a1, s.a2} {
		got := c.drain()
		// whatever subset was accepted, the relays appear in request order: never relay(2) before relay(1)
		if len(got) == 2 {
			verifnd.Assert(typeNum(got[0]) == relayType(k1) && typeNum(got[1]) == relayType(k2), "C02.order.in_request_order", kindName(k1), kindName(k2), memberName(i))
		}
		verifnd.Assert(len(got) <= 2, "C02.order.at_most_one_each", kindName(k1), kindName(k2))
		if len(got) == 1 {
			t := typeNum(got[0])
			verifnd.Assert(t == relayType(k1) || t == relayType(k2), "C02.order.only_relays", kindName(k1), kindName(k2))
		}
	}
	verifnd.Reach("C02.order.done")
}
