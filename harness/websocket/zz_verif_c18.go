//go:build verif

package websocket

import (
	"crypto/ecdsa"

	"github.com/aukilabs/hagall-common/messages/hagallpb"
	hwebsocket "github.com/aukilabs/hagall-common/websocket"
	"github.com/aukilabs/hagall/internal/verifnd"
	"github.com/ethereum/go-ethereum/common/hexutil"
	"github.com/ethereum/go-ethereum/crypto"
	"google.golang.org/protobuf/proto"
)

func newKey() *ecdsa.PrivateKey {
	k, _ := crypto.GenerateKey()
	return k
}

// pingsIn returns the ids of the server pings among msgs.
func pingsIn(msgs []hwebsocket.Msg) []uint32 {
	var ids []uint32
	for _, m := range msgs {
		if typeNum(m) == int32(hagallpb.MsgType_MSG_TYPE_PING_REQUEST) {
			var r hagallpb.Response
			if m.DataTo(&r) == nil {
				ids = append(ids, r.RequestId)
			}
		}
	}
	return ids
}

// VerifC18Control: a signed latency measurement with an arbitrary iteration count and wallet; then the
// client answers each server ping with the issued id, an id answered before, or an unknown id, and keeps
// answering after completion.
func VerifC18Control() {
	verifnd.ConcreteClock(1000000)
	w := newVWorld(0)
	c := w.newConn()
	key := newKey()
	c.rh.PrivateKey = key
	joined := verifnd.Bool()
	if joined {
		c.mustJoin("")
		c.drain()
	}
	iter, wallet, rid := verifnd.U32(), verifnd.Str(), verifnd.U32()
	err := c.do(&hagallpb.SignedLatencyRequest{Type: hagallpb.MsgType_MSG_TYPE_SIGNED_LATENCY_REQUEST, Timestamp: vts(), RequestId: rid, IterationCount: iter, WalletAddress: wallet})
	verifnd.Assert(err == nil, "C18.request.noerror")
	first := c.drain()
	accepted := len(pingsIn(first)) == 1
	verifnd.Assert(verifnd.Iff(verifnd.And(joined, iter >= 3, iter <= 50, wallet != ""), accepted), "C18.started_iff_joined_3_to_50_rounds_and_wallet")
	if !accepted {
		verifnd.Assert(len(first) == 1 && typeNum(first[0]) == 0, "C18.refused_with_one_error")
		verifnd.Reach("C18.control.refused")
		return
	}
	verifnd.Assert(len(first) == 1, "C18.start_sends_only_the_first_ping")
	maxN := uint32(3)
	if verifnd.Tier() == 1 {
		maxN = 4
	}
	verifnd.Assume(iter <= maxN) // the arithmetic of longer measurements is outside the bound
	n := int(maxN)
	if iter == 3 {
		n = 3
	}

	issued := pingsIn(first)
	var answered, stale []uint32
	restarted := false
	done := false
	responses := 0
	extra := 0
	for step := 0; step < n+3 && extra < 2; step++ {
		// ids issued so far are pairwise distinct (a collision needs two pings exactly 2^32 ns apart: outside the claim)
		for i := range issued {
			for j := i + 1; j < len(issued); j++ {
				verifnd.Assume(issued[i] != issued[j])
			}
			for _, o := range stale {
				verifnd.Assume(issued[i] != o)
			}
		}
		pending := issued[len(issued)-1]
		var id uint32
		nModes := 3
		if !restarted && !done {
			nModes = 4
		}
		mode := verifnd.Choice(nModes)
		if mode == 3 {
			// the client restarts the measurement while one is in progress: a fresh one begins
			restarted = true
			rid = verifnd.U32()
			e3 := c.do(&hagallpb.SignedLatencyRequest{Type: hagallpb.MsgType_MSG_TYPE_SIGNED_LATENCY_REQUEST, Timestamp: vts(), RequestId: rid, IterationCount: 3, WalletAddress: wallet})
			verifnd.Assert(e3 == nil, "C18.restart.noerror")
			got := c.drain()
			np := pingsIn(got)
			verifnd.Assert(len(np) == 1 && len(got) == 1, "C18.restart.starts_afresh")
			for _, old := range issued {
				verifnd.Assume(len(np) == 1 && np[0] != old)
			}
			stale = append(stale, issued...)
			issued, answered, n = np, nil, 3
			continue
		}
		switch mode {
		case 0:
			id = pending
		case 1:
			old := append(append([]uint32{}, answered...), stale...)
			if len(old) == 0 {
				continue
			}
			id = old[verifnd.Choice(len(old))]
		case 2:
			id = verifnd.U32()
			ok := true
			for _, x := range issued {
				ok = verifnd.And(ok, id != x)
			}
			for _, x := range stale {
				ok = verifnd.And(ok, id != x)
			}
			verifnd.Assume(ok)
		}
		if done {
			extra++
		}
		fresh := mode == 0 && !done
		e2 := c.do(&hagallpb.Response{Type: hagallpb.MsgType_MSG_TYPE_PING_RESPONSE, Timestamp: vts(), RequestId: id})
		verifnd.Assert(e2 == nil, "C18.ping_response.noerror")
		got := c.drain()
		newPings := pingsIn(got)
		nResp := countType(got, hagallpb.MsgType_MSG_TYPE_SIGNED_LATENCY_RESPONSE)
		nErr := countType(got, hagallpb.MsgType_MSG_TYPE_ERROR_RESPONSE)
		if !fresh {
			// unknown, already answered, or after completion: refused, nothing advances
			verifnd.Assert(nErr == 1, "C18.stale_or_unknown_ping_refused", modeName(mode, done))
			verifnd.Assert(len(newPings) == 0 && nResp == 0, "C18.stale_or_unknown_ping_does_not_advance", modeName(mode, done))
			continue
		}
		answered = append(answered, id)
		verifnd.Assert(nErr == 0, "C18.issued_ping_accepted")
		if len(answered) < n {
			verifnd.Assert(len(newPings) == 1 && nResp == 0, "C18.next_round_started")
			issued = append(issued, newPings...)
		} else {
			verifnd.Assert(len(newPings) == 0 && nResp == 1, "C18.exactly_one_response_after_n_rounds")
			done = true
		}
		responses += nResp
		if nResp == 1 {
			c18CheckResponse(c, got, rid, wallet, key, issued, n)
		}
	}
	if done {
		verifnd.Assert(len(issued) == n && responses == 1, "C18.exactly_n_pings_one_response")
		verifnd.Reach("C18.control.completed")
	}
	verifnd.Reach("C18.control.done")
}

func modeName(mode int, done bool) string {
	s := "issued"
	switch mode {
	case 1:
		s = "answered_before"
	case 2:
		s = "unknown"
	}
	if done {
		s += "_after_completion"
	}
	return s
}

// c18CheckResponse: signature over exactly the returned data, data bound to requester, session, wallet and pings.
func c18CheckResponse(c *vConn, got []hwebsocket.Msg, rid uint32, wallet string, key *ecdsa.PrivateKey, issued []uint32, n int) {
	var resp hagallpb.SignedLatencyResponse
	for _, m := range got {
		if typeNum(m) == int32(hagallpb.MsgType_MSG_TYPE_SIGNED_LATENCY_RESPONSE) {
			verifnd.Assert(m.DataTo(&resp) == nil, "C18.response.decodes")
		}
	}
	verifnd.Assert(resp.RequestId == rid, "C18.response.echoes_request_id")
	sig, err := crypto.Sign(crypto.Keccak256Hash(resp.Data).Bytes(), key)
	if err == nil {
		verifnd.Assert(resp.Signature == hexutil.Encode(sig), "C18.response.signature_over_returned_data")
	}
	var ld hagallpb.LatencyData
	verifnd.Assert(proto.Unmarshal(resp.Data, &ld) == nil, "C18.response.data_decodes")
	verifnd.Assert(verifnd.And(ld.ClientId == c.rh.clientID, ld.SessionId == c.uuid, ld.WalletAddress == wallet), "C18.data.names_client_session_wallet")
	verifnd.Assert(int(ld.IterationCount) == n && len(ld.PingRequestIds) == n, "C18.data.lists_n_pings")
	for _, id := range issued {
		cnt := 0
		for _, x := range ld.PingRequestIds {
			if x == id {
				cnt++
			}
		}
		verifnd.Assert(cnt == 1, "C18.data.lists_exactly_the_issued_ids")
	}
	verifnd.Observe("c18", uint64(n), uint64(len(ld.PingRequestIds)))
}
