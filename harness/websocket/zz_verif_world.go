//go:build verif

package websocket

import (
	"context"
	"time"

	"github.com/aukilabs/hagall-common/messages/hagallpb"
	"github.com/aukilabs/hagall-common/ncsclient"
	hwebsocket "github.com/aukilabs/hagall-common/websocket"
	"github.com/aukilabs/hagall/featureflag"
	"github.com/aukilabs/hagall/internal/verifnd"
	"github.com/aukilabs/hagall/models"
	"github.com/aukilabs/hagall/modules"
	"github.com/aukilabs/hagall/modules/dagaz"
	"github.com/aukilabs/hagall/modules/odal"
	"github.com/aukilabs/hagall/modules/vikja"
	"google.golang.org/protobuf/types/known/timestamppb"
)

// vFrame is the frame duration used by harness worlds (tickers of this period are fired by FireTickers).
const vFrame = 50 * time.Millisecond

// Module subset bits.
const (
	vModVikja = 1
	vModOdal  = 2
	vModDagaz = 4
)

type vServerID struct{}

func (vServerID) ServerID() string { return "ted" }

// vWorld is a server-side world built from real code only: one SessionStore shared by
// connections, each a real RealtimeHandler driven through the real unexported handler.
type vWorld struct {
	store   *models.SessionStore
	ctx     context.Context
	flags   featureflag.FeatureFlag
	mods    int
	receipt chan ncsclient.ReceiptPayload
	conns   []*vConn
}

type vConn struct {
	w    *vWorld
	rh   *RealtimeHandler
	h    *handler
	resp responseSender
	pid  uint32 // participant id handed out by the last successful join
	sid  string // session id of the last successful join
	uuid string
}

func newVWorld(mods int) *vWorld {
	return &vWorld{
		store:   &models.SessionStore{DiscoveryService: vServerID{}},
		ctx:     context.Background(),
		mods:    mods,
		receipt: make(chan ncsclient.ReceiptPayload, 128),
	}
}

func (w *vWorld) newConn() *vConn {
	var ms []modules.Module
	if w.mods&vModVikja != 0 {
		ms = append(ms, &vikja.Module{})
	}
	if w.mods&vModOdal != 0 {
		ms = append(ms, &odal.Module{})
	}
	if w.mods&vModDagaz != 0 {
		ms = append(ms, &dagaz.Module{})
	}
	rh := &RealtimeHandler{
		ClientSyncClockInterval: time.Hour,
		ClientIdleTimeout:       time.Hour,
		FrameDuration:           vFrame,
		Sessions:                w.store,
		Modules:                 ms,
		FeatureFlags:            w.flags,
		ReceiptChan:             w.receipt,
	}
	rh.clientID = "client"
	h := &handler{Handler: rh}
	h.sendChan = make(chan hwebsocket.Msg, sendChanSize)
	sched := hwebsocket.NewScheduler()
	h.dispatcher = sched
	h.consumer = sched
	c := &vConn{w: w, rh: rh, h: h}
	c.resp = responseSender{send: h.send, sendMsg: h.sendMsg}
	w.conns = append(w.conns, c)
	return c
}

// do delivers one request exactly as the connection main loop does.
func (c *vConn) do(req hwebsocket.ProtoMsg) error {
	msg, err := hwebsocket.MsgFromProto(req)
	if err != nil {
		panic("harness built an unencodable request")
	}
	return c.h.handleMessage(c.w.ctx, msg, c.resp)
}

// drain returns everything queued for the client, in order.
func (c *vConn) drain() []hwebsocket.Msg {
	var out []hwebsocket.Msg
	for len(c.h.sendChan) != 0 {
		out = append(out, <-c.h.sendChan)
	}
	return out
}

// sendQueue peeks at the number of queued messages without consuming them.
func (c *vConn) sendQueue() []struct{} { return make([]struct{}, len(c.h.sendChan)) }

func (w *vWorld) drainAll() {
	for _, c := range w.conns {
		c.drain()
	}
}

// isType compares by enum number: core and module message enums share one number space.
func isType(m hwebsocket.Msg, t hagallpb.MsgType) bool {
	return m.Type != nil && int32(m.Type.Number()) == int32(t)
}

// join sends a join request for session id sid ("" = create) and records the answer.
// It returns the messages the joiner received.
func (c *vConn) join(sid string, reqID uint32) []hwebsocket.Msg {
	err := c.do(&hagallpb.ParticipantJoinRequest{
		Type:      hagallpb.MsgType_MSG_TYPE_PARTICIPANT_JOIN_REQUEST,
		Timestamp: timestamppb.Now(),
		RequestId: reqID,
		SessionId: sid,
	})
	verifnd.Assert(err == nil, "setup.join.noerror")
	msgs := c.drain()
	for _, m := range msgs {
		if isType(m, hagallpb.MsgType_MSG_TYPE_PARTICIPANT_JOIN_RESPONSE) {
			var r hagallpb.ParticipantJoinResponse
			if m.DataTo(&r) == nil {
				c.pid = r.ParticipantId
				c.sid = r.SessionId
				c.uuid = r.SessionUuid
			}
		}
	}
	return msgs
}

// mustJoin joins and asserts that it succeeded (a world-construction step).
func (c *vConn) mustJoin(sid string) {
	c.pid = 0
	c.join(sid, 1)
	verifnd.Assert(c.pid != 0, "setup.join.succeeds")
}

func countType(msgs []hwebsocket.Msg, t hagallpb.MsgType) int {
	n := 0
	for _, m := range msgs {
		if isType(m, t) {
			n++
		}
	}
	return n
}
