//go:build verif

package websocket

import (
	"github.com/aukilabs/hagall-common/messages/hagallpb"
	"github.com/aukilabs/hagall/internal/verifnd"
	"google.golang.org/protobuf/types/known/timestamppb"
)

// VerifC14Custom: one custom message with a symbolic-length body and a symbolic recipient list,
// sent by a0 into a session of three or four members (plus a member of another session and an unjoined
// connection).
func VerifC14Custom() {
	w := newVWorld(0)
	a0, a1, a2, a3 := w.newConn(), w.newConn(), w.newConn(), w.newConn()
	b0, n0 := w.newConn(), w.newConn()
	a0.mustJoin("")
	// the sender alone, or a session of three or of four members; the list may be longer than the session is large
	size := verifnd.Choice(3)
	small := size <= 1
	if size >= 1 {
		a1.mustJoin(a0.sid)
		a2.mustJoin(a0.sid)
	}
	if size == 2 {
		a3.mustJoin(a0.sid)
	}
	b0.mustJoin("")
	w.drainAll()

	maxList := 3
	if small {
		maxList = 4
	}
	if verifnd.Tier() == 1 {
		maxList = 5
	}
	body := verifnd.Bytes(1<<31 - 1)
	n := verifnd.Choice(maxList + 1)
	ids := make([]uint32, n)
	for i := range ids {
		ids[i] = verifnd.U32()
	}
	ots := &timestamppb.Timestamp{Seconds: verifnd.I64(), Nanos: verifnd.I32()}
	err := a0.do(&hagallpb.CustomMessage{
		Type:           hagallpb.MsgType_MSG_TYPE_CUSTOM_MESSAGE,
		Timestamp:      ots,
		ParticipantIds: ids,
		Body:           body,
	})
	verifnd.Assert(err == nil, "C14.noerror")

	tooLarge := len(body) > 10240

	// the sender: TOO_LARGE error iff the body exceeds the limit, nothing otherwise; never its own message
	own := a0.drain()
	if tooLarge {
		verifnd.Assert(len(own) == 1, "C14.sender.one_answer_when_too_large")
		if len(own) == 1 {
			var er hagallpb.ErrorResponse
			ok := isType(own[0], hagallpb.MsgType_MSG_TYPE_ERROR_RESPONSE) && own[0].DataTo(&er) == nil
			verifnd.Assert(ok && er.Code == hagallpb.ErrorCode_ERROR_CODE_TOO_LARGE, "C14.sender.too_large_code")
		}
	} else {
		verifnd.Assert(len(own) == 0, "C14.sender.silent_when_accepted")
	}

	for k, m := range []*vConn{a1, a2, a3} {
		if m.pid == 0 {
			verifnd.Assert(len(m.drain()) == 0, "C14.unjoined.silent")
			continue
		}
		named := false
		for i := range ids {
			named = verifnd.Or(named, ids[i] == m.pid)
		}
		expected := verifnd.And(!tooLarge, verifnd.Or(n == 0, named))
		got := m.drain()
		verifnd.Assert(len(got) <= 1, "C14.member.at_most_once", memberName(k))
		verifnd.Assert(verifnd.Iff(expected, len(got) == 1), "C14.member.delivered_iff_addressed", memberName(k))
		if len(got) == 1 {
			var b hagallpb.CustomMessageBroadcast
			ok := isType(got[0], hagallpb.MsgType_MSG_TYPE_CUSTOM_MESSAGE_BROADCAST) && got[0].DataTo(&b) == nil
			verifnd.Assert(ok, "C14.member.is_custom_broadcast")
			verifnd.Assert(verifnd.SameBytes(b.Body, body), "C14.member.body_unchanged")
			verifnd.Assert(b.ParticipantId == a0.pid, "C14.member.stamped_with_sender")
			verifnd.Assert(b.OriginTimestamp != nil && b.OriginTimestamp.Seconds == ots.Seconds && b.OriginTimestamp.Nanos == ots.Nanos, "C14.member.origin_timestamp")
			verifnd.Observe("c14.delivered", uint64(k), uint64(b.ParticipantId), verifnd.BytesID(b.Body))
		}
	}
	// other session and unjoined connection see nothing
	verifnd.Assert(len(b0.drain()) == 0, "C14.other_session.silent")
	verifnd.Assert(len(n0.drain()) == 0, "C14.unjoined.silent")
	verifnd.Observe("c14.end", verifnd.B2U(tooLarge), uint64(n))
	verifnd.Reach("C14.done")
}

func memberName(k int) string {
	switch k {
	case 0:
		return "a1"
	case 1:
		return "a2"
	}
	return "a3"
}
