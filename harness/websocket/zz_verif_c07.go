//go:build verif

package websocket

import (
	"github.com/aukilabs/hagall/internal/verifnd"
)

type c07World struct {
	w        *vWorld
	conns    []*vConn
	joined   []bool
	seenSids []string
	seenUUID []string
	gauge0   int64
	workers0 int
}

// invariant: at a quiescent moment the discoverable sessions are exactly the non-empty ones, every joined
// connection's session is the one registered under its id, and the session gauge equals their number.
func (c *c07World) invariant(tag string) {
	live := 0
	for i, x := range c.conns {
		if !c.joined[i] {
			verifnd.Assert(x.rh.CurrentSession() == nil, "C07.left_connection_holds_no_session", tag)
			continue
		}
		s, ok := c.w.store.GetByGlobalID(x.sid)
		verifnd.Assert(ok, "C07.joined_session_is_discoverable", tag)
		verifnd.Assert(ok && s == x.rh.CurrentSession(), "C07.joined_session_is_the_registered_one", tag)
		if ok {
			verifnd.Assert(s.ParticipantCount() >= 1 && s.SessionUUID == x.uuid, "C07.joined_session_is_live", tag)
		}
		first := true
		for j := 0; j < i; j++ {
			if c.joined[j] && c.conns[j].sid == x.sid {
				first = false
			}
		}
		if first {
			live++
		}
	}
	for _, sid := range c.seenSids {
		nonEmpty := false
		for i, x := range c.conns {
			if c.joined[i] && x.sid == sid {
				nonEmpty = true
			}
		}
		_, ok := c.w.store.GetByGlobalID(sid)
		verifnd.Assert(ok == nonEmpty, "C07.discoverable_iff_non_empty", tag)
	}
	verifnd.Assert(verifnd.Gauge("session_count")-c.gauge0 == int64(live), "C07.gauge_equals_live_sessions", tag)
	// the frame worker of an ended session stops: one worker per live session
	verifnd.Quiesce()
	verifnd.Assert(verifnd.GoroutinesIn("StartDispatchFrames")-c.workers0 == live, "C07.frame_workers_equal_live_sessions", tag)
}

// VerifC07Seq: a bounded arbitrary history of joins (new session, existing session of another connection,
// a session id seen earlier, an unknown id), switches and departures of three connections.
func VerifC07Seq() {
	c := &c07World{w: newVWorld(0)}
	c.gauge0 = verifnd.Gauge("session_count")
	c.workers0 = verifnd.GoroutinesIn("StartDispatchFrames")
	for i := 0; i < 3; i++ {
		c.conns = append(c.conns, c.w.newConn())
		c.joined = append(c.joined, false)
	}
	steps := 3
	if verifnd.Tier() == 1 {
		steps = 4
	}
	for st := 0; st < steps; st++ {
		ci := verifnd.Choice(3)
		x := c.conns[ci]
		switch verifnd.Choice(4) {
		case 0: // create
			wasJoined := c.joined[ci]
			_ = wasJoined
			x.pid = 0
			x.join("", 1)
			verifnd.Assert(x.pid != 0, "C07.create_always_succeeds")
			c.joined[ci] = x.pid != 0
			if x.pid != 0 {
				// a session that reuses an id starts under a new UUID
				for k, sid := range c.seenSids {
					if sid == x.sid {
						verifnd.Assert(c.seenUUID[k] != x.uuid, "C07.reused_id_new_uuid")
					}
				}
				c.seenSids = append(c.seenSids, x.sid)
				c.seenUUID = append(c.seenUUID, x.uuid)
			}
		case 1: // join the session of another connection (by the id it was given), or a stale id
			oi := (ci + 1 + verifnd.Choice(2)) % 3
			target := c.conns[oi].sid
			if target == "" {
				continue
			}
			_, exists := c.w.store.GetByGlobalID(target)
			already := c.joined[ci] && x.sid == target
			old := x.pid
			x.pid = 0
			x.join(target, 2)
			switch {
			case already:
				verifnd.Assert(x.pid == 0, "C07.already_joined_refused")
				x.pid = old
			case !exists:
				verifnd.Assert(x.pid == 0, "C07.ended_session_not_joinable")
				// a refused join is not a departure: the requester stays where it was (a session must not end
				// under a participant that neither left nor disconnected)
				verifnd.Assert(!(c.joined[ci] && x.rh.CurrentSession() == nil), "C07.refused_join_is_not_a_departure", "ended_id")
				if c.joined[ci] && x.rh.CurrentSession() == nil {
					c.joined[ci] = false
				} else {
					x.pid = old
				}
			default:
				verifnd.Assert(x.pid != 0 && x.sid == target, "C07.live_session_joinable")
				c.joined[ci] = x.pid != 0
			}
		case 2: // the connection ends
			x.rh.HandleDisconnect(nil)
			c.joined[ci] = false
		case 3: // join an id that never existed
			old := x.pid
			x.pid = 0
			x.join("never-existed", 3)
			verifnd.Assert(x.pid == 0, "C07.unknown_id_refused")
			verifnd.Assert(!(c.joined[ci] && x.rh.CurrentSession() == nil), "C07.refused_join_is_not_a_departure", "unknown_id")
			if c.joined[ci] && x.rh.CurrentSession() == nil {
				c.joined[ci] = false
			} else {
				x.pid = old
			}
		}
		c.w.drainAll()
		c.invariant("step")
	}
	verifnd.Observe("c07", uint64(len(c.seenSids)), verifnd.B2U(c.joined[0]), verifnd.B2U(c.joined[1]), verifnd.B2U(c.joined[2]))
	verifnd.Reach("C07.seq.done")
}

// VerifC07Par: the concurrent blocks the property names: a join of an existing session against the last
// departure, two last departures, two creations, and departure || departure || creation.
func VerifC07Par() {
	c := &c07World{w: newVWorld(0)}
	c.gauge0 = verifnd.Gauge("session_count")
	c.workers0 = verifnd.GoroutinesIn("StartDispatchFrames")
	for i := 0; i < 3; i++ {
		c.conns = append(c.conns, c.w.newConn())
		c.joined = append(c.joined, false)
	}
	x, y, z := c.conns[0], c.conns[1], c.conns[2]
	sc := verifnd.Choice(5)
	scName := "join_vs_last_leave"
	switch sc {
	case 0:
		x.mustJoin("")
		c.seenSids = append(c.seenSids, x.sid)
		target := x.sid
		y.pid = 0
		verifnd.Par(func() { x.rh.HandleDisconnect(nil) }, func() { y.join(target, 2) })
		c.joined[0] = false
		c.joined[1] = y.pid != 0
	case 1:
		scName = "leave_vs_leave"
		x.mustJoin("")
		y.mustJoin(x.sid)
		c.seenSids = append(c.seenSids, x.sid)
		verifnd.Par(func() { x.rh.HandleDisconnect(nil) }, func() { y.rh.HandleDisconnect(nil) })
	case 2:
		scName = "create_vs_create"
		verifnd.Par(func() { x.join("", 1) }, func() { y.join("", 1) })
		c.joined[0], c.joined[1] = x.pid != 0, y.pid != 0
		verifnd.Assert(x.pid != 0 && y.pid != 0 && x.sid != y.sid, "C07.par.two_creations_distinct_ids")
		c.seenSids = append(c.seenSids, x.sid, y.sid)
	case 3:
		scName = "leave_leave_create"
		x.mustJoin("")
		y.mustJoin(x.sid)
		c.seenSids = append(c.seenSids, x.sid)
		verifnd.Par(func() { x.rh.HandleDisconnect(nil) }, func() { y.rh.HandleDisconnect(nil) }, func() { z.join("", 1) })
		c.joined[2] = z.pid != 0
		if z.pid != 0 {
			c.seenSids = append(c.seenSids, z.sid)
		}
	case 4:
		// a join by id, the last departure from that session and a creation (which may be handed the id just
		// released) all at once: the joiner ends up in a live, registered session or is refused
		scName = "join_leave_create"
		x.mustJoin("")
		c.seenSids = append(c.seenSids, x.sid)
		target := x.sid
		y.pid = 0
		verifnd.Par(func() { x.rh.HandleDisconnect(nil) }, func() { y.join(target, 2) }, func() { z.join("", 1) })
		c.joined[0] = false
		c.joined[1] = y.pid != 0
		c.joined[2] = z.pid != 0
		if z.pid != 0 {
			c.seenSids = append(c.seenSids, z.sid)
		}
	}
	c.w.drainAll()
	c.invariant(scName)
	verifnd.Reach("C07.par.done")
	verifnd.Reach("C07.par." + scName)
}

// VerifC07Cycles: create/end cycles over many sessions with id reuse: four sessions are created, up to
// three of them end in an arbitrary order, then three more are created (reusing released ids and issuing
// new ones). After every step the registry invariant holds — in particular a session's id resolves to it
// and to no other live session.
func VerifC07Cycles() {
	c := &c07World{w: newVWorld(0)}
	c.gauge0 = verifnd.Gauge("session_count")
	c.workers0 = verifnd.GoroutinesIn("StartDispatchFrames")
	const n = 7
	for i := 0; i < n; i++ {
		c.conns = append(c.conns, c.w.newConn())
		c.joined = append(c.joined, false)
	}
	create := func(i int, tag string) {
		x := c.conns[i]
		x.join("", 1)
		verifnd.Assert(x.pid != 0, "C07.create_always_succeeds")
		c.joined[i] = x.pid != 0
		for k, sid := range c.seenSids {
			if sid == x.sid {
				verifnd.Assert(c.seenUUID[k] != x.uuid, "C07.reused_id_new_uuid")
				verifnd.Reach("C07.cycles.id_reused")
			}
		}
		for j := 0; j < n; j++ {
			if j != i && c.joined[j] {
				verifnd.Assert(c.conns[j].sid != x.sid, "C07.cycles.live_sessions_distinct_ids", tag)
			}
		}
		c.seenSids = append(c.seenSids, x.sid)
		c.seenUUID = append(c.seenUUID, x.uuid)
		c.w.drainAll()
		c.invariant(tag)
	}
	for i := 0; i < 4; i++ {
		create(i, "create")
	}
	ends := verifnd.Choice(4)
	for e := 0; e < ends; e++ {
		// the k-th still joined connection ends
		k := verifnd.Choice(4 - e)
		for i := 0; i < 4; i++ {
			if !c.joined[i] {
				continue
			}
			if k == 0 {
				c.conns[i].rh.HandleDisconnect(nil)
				c.joined[i] = false
				break
			}
			k--
		}
		c.w.drainAll()
		c.invariant("end")
	}
	for i := 4; i < n; i++ {
		create(i, "recreate")
	}
	verifnd.Observe("c07cycles", uint64(ends), uint64(len(c.seenSids)))
	verifnd.Reach("C07.cycles.done")
}
