//go:build verif

package websocket

import (
	"github.com/aukilabs/hagall-common/messages/hagallpb"
	"github.com/aukilabs/hagall/internal/verifnd"
)

// VerifC12Handlers: component requests against the session world; beyond the answer codes (C04):
// an update or delete of an absent component changes nothing and is relayed to no one, an accepted change
// shows up in the list, and removing an entity removes all of its components.
func VerifC12Handlers() {
	s := newStepWorld(stepShape{mods: 0, preset: verifnd.Choice(3), prior: verifnd.Bool()})
	p1, view := s.probe(s.a0.sid)
	p1.expectSubscribe(s.tReg)
	s.w.drainAll()
	kinds := []int{kCompAdd, kCompUpdate, kCompDelete, kEntityDelete, kDisconnect}
	kind := kinds[verifnd.Choice(len(kinds))]
	kn := stepKindName(kind)
	r, o := s.actOn(s.a0, kind, false)

	had := func(tid, eid uint32) bool { return view.compIdx(tid, eid) >= 0 }
	got := p1.drain()
	switch kind {
	case kCompUpdate, kCompDelete:
		// names an absent component (unknown type, unknown entity, or simply never added): nothing happens
		exists := false
		for _, c := range view.comps {
			exists = verifnd.Or(exists, verifnd.And(c.tid == r.tid, c.eid == r.eid))
		}
		verifnd.Assert(verifnd.Implies(!exists, len(got) == 0 && len(o.m1) == 0 && len(o.m2) == 0), "C12.absent_component.relayed_to_no_one", kn)
	case kCompAdd:
		ok := countType(o.own, hagallpb.MsgType_MSG_TYPE_ENTITY_COMPONENT_ADD_RESPONSE) == 1
		entityKnown := view.entIdx(r.eid) >= 0
		verifnd.Assert(verifnd.Implies(ok, verifnd.And(r.tid == s.tReg, entityKnown, !had(r.tid, r.eid))), "C12.add.only_registered_type_existing_entity_once", kn)
	}
	for _, m := range got {
		verifnd.Assert(view.apply(m, s.tReg), "C12.broadcast.applicable", kn)
	}
	// what the server lists now equals the subscriber's view, and every component belongs to an existing entity
	lister := s.a1
	lm := lister.expectOne(&hagallpb.EntityComponentListRequest{Type: hagallpb.MsgType_MSG_TYPE_ENTITY_COMPONENT_LIST_REQUEST, Timestamp: vts(), RequestId: 5, EntityComponentTypeId: s.tReg},
		hagallpb.MsgType_MSG_TYPE_ENTITY_COMPONENT_LIST_RESPONSE, "setup.list")
	var lr hagallpb.EntityComponentListResponse
	lm.DataTo(&lr)
	n := 0
	for _, c := range view.comps {
		if c.tid == s.tReg {
			n++
		}
	}
	verifnd.Assert(len(lr.EntityComponents) == n, "C12.list.exactly_current_components", kn)
	_, handed := s.probe(s.a0.sid)
	for _, m := range p1.drain() {
		view.apply(m, s.tReg)
	}
	verifnd.Assert(view.sameComponents(handed, s.tReg), "C12.list.exactly_current_components", kn)
	for _, c := range handed.comps {
		verifnd.Assert(handed.entIdx(c.eid) >= 0, "C12.entity_removal.removes_components", kn)
	}
	verifnd.Observe("c12h", uint64(kind), uint64(len(lr.EntityComponents)), uint64(len(handed.comps)))
	verifnd.Reach("C12.handlers.done")
	verifnd.Reach("C12.kind." + kn)
}

// VerifC10Issued: ids issued after an arbitrary step never repeat an id issued before in that session,
// whether or not its holder is gone.
func VerifC10Issued() {
	s := newStepWorld(stepShape{mods: vModOdal, preset: 0, noFree: true})
	p1, view := s.probe(s.a0.sid)
	_ = p1
	var oldAsset uint32
	if j := view.assetIdx(s.eOwn); j >= 0 {
		oldAsset = view.assets[j].id
	}
	kind := verifnd.Choice(kQuadSample + 1)
	if kind == kQuadSample {
		kind = kDisconnect
	}
	_, o := s.actOn(s.a0, kind, false)
	var stepEntity, stepAsset uint32
	for _, m := range o.own {
		switch typeNum(m) {
		case 9:
			var x hagallpb.EntityAddResponse
			m.DataTo(&x)
			stepEntity = x.EntityId
		}
	}
	_ = stepAsset
	// afterwards: a new participant, a new entity
	nc := s.w.newConn()
	nc.mustJoin(s.a1.sid)
	verifnd.Assert(nc.pid != s.a0.pid && nc.pid != s.a1.pid && nc.pid != s.a2.pid && nc.pid != s.dPid && nc.pid != p1.pid, "C10.participant_id_never_reissued", stepKindName(kind))
	e := nc.addEntity(false, nil)
	verifnd.Assert(e != s.eOwn && e != s.eOther && e != s.ePers && e != stepEntity, "C10.entity_id_never_reissued", stepKindName(kind))
	_ = oldAsset
	verifnd.Reach("C10.issued.done")
}
