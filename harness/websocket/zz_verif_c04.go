//go:build verif

package websocket

import (
	"github.com/aukilabs/hagall-common/messages/dagazpb"
	"github.com/aukilabs/hagall-common/messages/hagallpb"
	hwebsocket "github.com/aukilabs/hagall-common/websocket"
	"github.com/aukilabs/hagall/internal/verifnd"
	"strings"
)

const (
	codeOK       = hagallpb.ErrorCode(0xFFFF) // pseudo code: success
	codeNone     = hagallpb.ErrorCode(0xFFFE) // pseudo code: no answer at all (fire-and-forget kinds)
	codeBad      = hagallpb.ErrorCode_ERROR_CODE_BAD_REQUEST
	codeUnauth   = hagallpb.ErrorCode_ERROR_CODE_UNAUTHORIZED
	codeNotFound = hagallpb.ErrorCode_ERROR_CODE_NOT_FOUND
	codeConflict = hagallpb.ErrorCode_ERROR_CODE_CONFLICT
	codeTooLarge = hagallpb.ErrorCode_ERROR_CODE_TOO_LARGE
	codeJoined   = hagallpb.ErrorCode_ERROR_CODE_SESSION_ALREADY_JOINED
	codeBusy     = hagallpb.ErrorCode_ERROR_CODE_SERVER_TOO_BUSY
	codeInternal = hagallpb.ErrorCode_ERROR_CODE_INTERNAL_SERVER_ERROR
)

func iteCode(c bool, a, b hagallpb.ErrorCode) hagallpb.ErrorCode {
	return hagallpb.ErrorCode(verifnd.IteU32(c, uint32(a), uint32(b)))
}

// successType is the response type a kind answers with on success (0 = none).
func successType(k int) int32 {
	switch k {
	case kPing:
		return 39
	case kPingResponse:
		return 0
	case kSignedLatency:
		return 38 // the first server ping; the signed response follows after the rounds (C18)
	case kJoin:
		return 4
	case kEntityAdd:
		return 9
	case kEntityDelete:
		return 12
	case kTypeAdd:
		return 19
	case kTypeGetName:
		return 21
	case kTypeGetID:
		return 23
	case kCompAdd:
		return 25
	case kCompDelete:
		return 28
	case kCompList:
		return 33
	case kSubscribe:
		return 35
	case kUnsubscribe:
		return 37
	case kReceipt:
		return 41
	case kAction:
		return 102
	case kAssetAdd:
		return 202
	case kGetGroundPlane:
		return 302
	case kGetRegion:
		return 304
	case kGetDebugInfo:
		return 306
	}
	return 0
}

// expectedCode is the oracle table of Appendix A for a request sent by the joined actor a0:
// the error code the protocol defines, codeOK for success, codeNone for silent kinds.
func (s *stepWorld) expectedCode(r *stepReq) hagallpb.ErrorCode {
	isOwn := r.eid == s.eOwn
	exists := verifnd.Or(isOwn, r.eid == s.eOther, r.eid == s.ePers)
	typeReg := r.tid == s.tReg
	hasComp := verifnd.Or(verifnd.And(isOwn, s.compOwn), verifnd.And(r.eid == s.eOther, s.compOther), verifnd.And(r.eid == s.ePers, s.compPers))
	switch r.kind {
	case kPing:
		return codeOK
	case kPingResponse:
		return codeInternal // no measurement in progress: any ping id is unknown
	case kSignedLatency:
		return iteCode(verifnd.Or(r.iter < 3, r.iter > 50, r.name == ""), codeBad, codeOK)
	case kJoin:
		// a0 is in session A: same id -> already joined; "" -> new session; b0's session -> switch; anything else -> not found
		return iteCode(r.name == s.a0.sid, codeJoined, iteCode(verifnd.Or(r.name == "", r.name == s.b0.sid), codeOK, codeNotFound))
	case kEntityAdd:
		return codeOK
	case kEntityDelete:
		return iteCode(!exists, codeNotFound, iteCode(!isOwn, codeUnauth, codeOK))
	case kUpdatePose, kCompUpdate, kQuadSample:
		return codeNone
	case kCustom:
		return iteCode(len(r.data) > 10240, codeTooLarge, codeNone)
	case kTypeAdd:
		return iteCode(r.name == "", codeBad, codeOK)
	case kTypeGetName:
		return iteCode(r.tid == 0, codeBad, iteCode(typeReg, codeOK, codeNotFound))
	case kTypeGetID:
		return iteCode(r.name == "", codeBad, iteCode(r.name == vTypeName, codeOK, codeNotFound))
	case kCompAdd:
		return iteCode(verifnd.Or(r.tid == 0, r.eid == 0), codeBad, iteCode(!exists, codeNotFound, iteCode(!typeReg, codeNotFound, iteCode(hasComp, codeConflict, codeOK))))
	case kCompDelete:
		return iteCode(verifnd.Or(r.tid == 0, r.eid == 0), codeBad, iteCode(!exists, codeNotFound, iteCode(verifnd.And(typeReg, hasComp), codeOK, codeNotFound)))
	case kCompList:
		return iteCode(r.tid == 0, codeBad, codeOK)
	case kSubscribe:
		return iteCode(r.tid == 0, codeBad, iteCode(typeReg, codeOK, codeNotFound))
	case kUnsubscribe:
		return iteCode(r.tid == 0, codeBad, codeOK)
	case kReceipt:
		return iteCode(verifnd.Or(r.name == "", len(r.receiptH) == 0, len(r.receiptS) == 0), codeBad, codeOK)
	case kAction:
		if !r.hasSub || !r.hasSub2 {
			return codeBad
		}
		older := verifnd.And(isOwn, r.name == "act", s.hasAction, tsBefore(r.actTS.Seconds, r.actTS.Nanos, s.actSec, s.actNanos))
		olderP := verifnd.And(verifnd.Or(r.eid == s.ePers, r.eid == s.eOther), r.name == "act", s.hasAction, tsBefore(r.actTS.Seconds, r.actTS.Nanos, 1, 1))
		return iteCode(verifnd.Or(r.name == "", !exists, older, olderP), codeBad, codeOK)
	case kAssetAdd:
		return iteCode(r.name == "", codeBad, iteCode(!exists, codeNotFound, iteCode(!isOwn, codeUnauth, codeOK)))
	case kGetGroundPlane, kGetRegion, kGetDebugInfo:
		return codeOK
	}
	panic("kind")
}

// tsBefore: (s1,n1) strictly earlier than (s2,n2) for timestamps in protobuf's valid range.
func tsBefore(s1 int64, n1 int32, s2 int64, n2 int32) bool {
	return verifnd.Or(s1 < s2, verifnd.And(s1 == s2, n1 < n2))
}

// assumeValidTS restricts a timestamp to protobuf's documented valid range.
func assumeValidTS(sec int64, nanos int32) {
	verifnd.Assume(verifnd.And(sec >= -62135596800, sec <= 253402300799, nanos >= 0, nanos <= 999999999))
}

// VerifC04Step: one arbitrary request by a joined participant; exactly one answer with the defined outcome.
func VerifC04Step() {
	c04Step(stepShape{mods: vModVikja | vModOdal | vModDagaz, symIDs: true, prior: verifnd.Bool()}, 0, kQuadSample)
}

// VerifC04Dagaz: the ground-plane kinds, finite coordinates within 64 m.
func VerifC04Dagaz() {
	c04Step(stepShape{mods: vModDagaz}, kQuadSample, numKinds)
}

func c04Step(sh stepShape, lo, hi int) {
	s := newStepWorld(sh)
	kind := lo + verifnd.Choice(hi-lo)
	// optional sub-messages are present here; their absence is C08's subject (run-time panics), except
	// where the protocol defines an answer for it (entity action)
	r := buildRequest(kind, kind == kAction)
	nearMiss := false
	if kind == kJoin && verifnd.Bool() {
		nearMiss = true
		// a near miss of a live session's id (the requester's own or session B's): padded, re-cased, cut —
		// ids match exactly or not at all
		base := s.a0.sid
		if verifnd.Bool() {
			base = s.b0.sid
		}
		switch verifnd.Choice(5) {
		case 0:
			r.name = base + " "
		case 1:
			r.name = " " + base
		case 2:
			r.name = base + "\n"
		case 3:
			r.name = strings.ToUpper(base)
		default:
			r.name = base[:len(base)-1]
		}
		r.msg = &hagallpb.ParticipantJoinRequest{Type: hagallpb.MsgType_MSG_TYPE_PARTICIPANT_JOIN_REQUEST, Timestamp: r.ots, RequestId: r.rid, SessionId: r.name}
	}
	if s.hasAction {
		assumeValidTS(s.actSec, s.actNanos)
	}
	if r.actTS != nil {
		assumeValidTS(r.actTS.Seconds, r.actTS.Nanos)
	}
	want := s.expectedCode(r)
	p1, view := s.probe(s.a0.sid)
	s.w.drainAll()
	o := s.run(s.a0, r)
	kn := kindName(kind)
	if nearMiss {
		kn = "join_near_miss"
	}
	told := p1.drain()

	// the handler only errors (-> disconnect) for the receipt kinds by design; never for a joined participant otherwise
	if kind != kReceipt {
		verifnd.Assert(o.err == nil, "C04.joined.no_disconnect", kn)
	}
	// answers to the requester that echo the request id
	st := successType(kind)
	nAns := 0
	var gotCode hagallpb.ErrorCode = codeNone
	var first hwebsocket.Msg
	for _, m := range o.own {
		t := typeNum(m)
		if _, code, ok := decodeError(m); ok {
			nAns++
			gotCode = code
			first = m
			continue
		}
		if st != 0 && t == st {
			nAns++
			gotCode = codeOK
			first = m
		}
	}
	if kind == kPingResponse {
		// an unknown ping id is refused with an error; nothing advances
		verifnd.Assert(nAns == 1, "C04.answered_once", kn)
	} else {
		verifnd.Assert(verifnd.Iff(want != codeNone, nAns == 1), "C04.answered_once", kn)
		verifnd.Assert(nAns <= 1, "C04.at_most_one_answer", kn)
	}
	verifnd.Assert(gotCode == want, "C04.outcome_matches_protocol", kn)
	if nAns == 1 && kind != kCustom && kind != kSignedLatency {
		rid, ok := ridOf(first)
		verifnd.Assert(ok && rid == r.rid, "C04.echoes_request_id", kn)
	}
	// nobody else receives a message carrying a response type
	for _, list := range [][]hwebsocket.Msg{o.m1, o.m2, o.ob, o.on} {
		for _, m := range list {
			t := typeNum(m)
			verifnd.Assert(t != 0 && (st == 0 || t != st), "C04.answer_only_to_requester", kn)
		}
	}
	// a refused request changes nothing: nobody is told anything and a newcomer is handed the state a probe held before
	if nAns == 1 && gotCode != codeOK && kind != kPingResponse {
		verifnd.Assert(len(told) == 0 && len(o.m1) == 0 && len(o.m2) == 0, "C04.refused.nobody_told", kn)
		_, handed := s.probe(s.a0.sid)
		for _, m := range p1.drain() {
			view.apply(m, 0)
		}
		verifnd.Assert(verifnd.And(view.sameParticipants(handed), view.sameEntities(handed), view.sameComponents(handed, s.tReg), view.sameActions(handed), view.sameAssets(handed)), "C04.refused.changes_nothing", kn)
	}
	verifnd.Observe("c04", uint64(kind), uint64(nAns), uint64(uint32(gotCode)))
	verifnd.Reach("C04.step.done")
	verifnd.Reach("C04.kind." + kn)
}

// VerifC04DagazQueries: the three ground-plane queries and the sample message (concrete coordinates, symbolic
// request id): each query is answered exactly once with its matching response echoing the id; a sample with
// nothing; from an unjoined connection nothing at all.
func VerifC04DagazQueries() {
	w := newVWorld(vModDagaz)
	c, other := w.newConn(), w.newConn()
	other.mustJoin("")
	joined := verifnd.Bool()
	if joined {
		c.mustJoin(other.sid)
	}
	w.drainAll()
	rid := verifnd.U32()
	pt := func(x, z float32) *dagazpb.Point { return &dagazpb.Point{X: x, Y: 0, Z: z} }
	kind := verifnd.Choice(4)
	var want int32
	switch kind {
	case 0:
		c.do(&dagazpb.DagazQuadSample{Type: dagazpb.MsgType_MSG_TYPE_DAGAZ_QUAD_SAMPLE, Timestamp: vts(), Samples: []*dagazpb.Quad{{Center: pt(0.5, 0.5), Extents: pt(0.25, 0.25)}}})
	case 1:
		want = 302
		c.do(&dagazpb.DagazGetGroundPlaneRequest{Type: dagazpb.MsgType_MSG_TYPE_DAGAZ_GET_GROUND_PLANE_REQUEST, Timestamp: vts(), RequestId: rid, Ray: &dagazpb.Ray{From: &dagazpb.Point{X: 0.5, Y: 1, Z: 0.5}, To: &dagazpb.Point{X: 0.5, Y: -1, Z: 0.5}}})
	case 2:
		want = 304
		c.do(&dagazpb.DagazGetRegionRequest{Type: dagazpb.MsgType_MSG_TYPE_DAGAZ_GET_REGION_REQUEST, Timestamp: vts(), RequestId: rid, Min: pt(-1, -1), Max: pt(3, 3)})
	case 3:
		want = 306
		c.do(&dagazpb.DagazGetDebugInfoRequest{Type: dagazpb.MsgType_MSG_TYPE_DAGAZ_GET_DEBUG_INFO_REQUEST, RequestId: rid})
	}
	got := c.drain()
	if !joined || want == 0 {
		verifnd.Assert(len(got) == 0, "C04.dagaz.silent", kindName(kQuadSample+kind))
	} else {
		verifnd.Assert(len(got) == 1 && typeNum(got[0]) == want, "C04.dagaz.answered_once_with_matching_response", kindName(kQuadSample+kind))
		if len(got) == 1 {
			r, ok := ridOf(got[0])
			verifnd.Assert(ok && r == rid, "C04.dagaz.echoes_request_id", kindName(kQuadSample+kind))
		}
	}
	verifnd.Assert(len(other.drain()) == 0, "C04.dagaz.answer_only_to_requester")
	verifnd.Reach("C04.dagaz.done")
}
