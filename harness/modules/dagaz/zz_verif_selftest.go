//go:build verif

package dagaz

import (
	"github.com/aukilabs/hagall/internal/verifnd"
)

// VerifSelfTestDagaz pushes the inputs of the repository's own unit tests (math_test.go,
// grid_spatial_partition_test.go) through the engine: the real functions are executed by the symbolic
// executor on the tests' concrete values and must give the tests' expected results; the same function runs
// natively as the witness replay. This validates the encoder (float folding, conversions, slices, maps of
// pointers, pointer identity) against the implementation on every run.
func VerifSelfTestDagaz() {
	ok := true
	chk := func(c bool, what string) {
		verifnd.Assert(c, "selftest.dagaz", what)
		ok = ok && c
	}
	chk(EqualWithEpsilon(0.1, 0.2, 0.11), "EqualWithEpsilon")
	xAxis, yAxis, zAxis := Vector3f{1, 0, 0}, Vector3f{0, 1, 0}, Vector3f{0, 0, 1}
	chk(xAxis.Dot(yAxis) == 0, "Dot")
	chk(zAxis.Equal(Cross(xAxis, yAxis)), "Cross")
	hit, _ := IntersectQuad(Ray{From: Vector3f{0, 10, 0}, To: Vector3f{0, -10, 0}}, Quad{Center: Vector3f{0, 0, 0}, Extents: Vector3f{1, 0, 1}, Normal: Vector3f{0, 1, 0}})
	chk(hit, "IntersectQuad")
	zero, one := Vector3f{0, 0, 0}, Vector3f{1, 1, 1}
	chk(one.EqualWithEpsilon(Vector3f{0.9, 1.1, 1}, 0.11), "Vector.EqualWithEpsilon")
	chk(one.GreaterThan(zero) && one.GreaterOrEqualThan(one) && zero.LesserThan(one) && zero.LesserOrEqualThan(zero), "Vector.compare")
	chk(one.Equal(Add(zero, one)) && one.Equal(Sub(one, zero)) && zero.Equal(Mul(one, 0)), "Vector.arith")
	l1 := Vector3f{1, 0, 0}
	chk(l1.Length() == 1, "Length")
	n1 := Normalized(one)
	chk(EqualWithEpsilon(float32(n1.Length()), 1, 0.001), "Normalized")
	one.NormalizeInPlace()
	chk(EqualWithEpsilon(float32(one.Length()), 1, 0.001), "NormalizeInPlace")
	quad := Quad{Center: Vector3f{0, 0, 0}, Extents: Vector3f{1, 0, 1}, Normal: Vector3f{0, 1, 0}}
	far := Quad{Center: Vector3f{10, 0, 0}, Extents: Vector3f{1, 0, 1}, Normal: Vector3f{0, 1, 0}}
	chk(doHorizontalPlanesOverlap(quad, quad) && !doHorizontalPlanesOverlap(quad, far), "doHorizontalPlanesOverlap")
	up := Vector3f{0, 1, 0}
	chk(up.EqualWithEpsilon(calculateNormal(Vector3f{0, 0, 0}, Vector3f{1, 0, 1}), 0.0001), "calculateNormal")

	// grid tests: creation, insertion, merging, intersection, region
	g := NewRegularGrid(10, 10, 1)
	chk(len(g.Grid) == 10 && len(g.Grid[0]) == 10, "GridCreation")
	// TestGridQuadIntersection
	q0 := Quad{Center: Vector3f{0, 0, 0}, Extents: Vector3f{1, 0, 1}, Normal: up}
	g = NewRegularGrid(1, 1, 1)
	g.InsertQuad(q0)
	hq, ht := g.IntersectQuad(Ray{From: Vector3f{0, 1, 0}, To: Vector3f{0, -1, 0}})
	chk(hq != nil && *hq == q0 && ht == 0.5, "GridQuadIntersection.hit")
	mq, mt := g.IntersectQuad(Ray{From: Vector3f{10, 1, 0}, To: Vector3f{0, -1, 0}})
	chk(mq == nil && mt == -1, "GridQuadIntersection.nohit")
	// a longer history whose outcome is not asserted but observed: the engine's prediction must equal the native run
	g = NewRegularGrid(1, 1, 2)
	g.InsertQuad(Quad{Center: Vector3f{0.5, 0, 0.5}, Extents: Vector3f{0.25, 0, 0.25}, Normal: up})
	g.InsertQuad(Quad{Center: Vector3f{0.6, 0.1, 0.6}, Extents: Vector3f{0.25, 0, 0.25}, Normal: up})
	g.InsertQuad(Quad{Center: Vector3f{3.5, 0, 3.5}, Extents: Vector3f{0.25, 0, 0.25}, Normal: up})
	g.InsertQuad(Quad{Center: Vector3f{-2.5, 0, 1.5}, Extents: Vector3f{1.25, 0, 0.75}, Normal: up})
	di := g.GetDebugInfo()
	occ := uint64(0)
	for _, o := range di.Occupancy {
		occ = occ*3 + uint64(o)
	}
	verifnd.Observe("selftest.dagaz.grid", uint64(di.Plane_count), uint64(di.Merge_count), uint64(di.Row_count), uint64(di.Col_count), occ,
		verifnd.F32Bits(g.Min.x), verifnd.F32Bits(g.Max.x), verifnd.F32Bits(g.Min.z), verifnd.F32Bits(g.Max.z), uint64(len(g.GetRegion(g.Min, g.Max))))
	verifnd.Observe("selftest.dagaz", verifnd.B2U(ok), uint64(g.PlaneCount), uint64(g.MergeCount), uint64(len(g.Grid)), verifnd.F32Bits(n1.x), verifnd.F32Bits(one.x))
	verifnd.Reach("selftest.dagaz.done")
}
