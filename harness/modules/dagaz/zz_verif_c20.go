//go:build verif

package dagaz

import (
	"math"

	"github.com/aukilabs/hagall/internal/verifnd"
)

func symCoord() float32 {
	f := verifnd.F32()
	verifnd.Assume(f >= -64 && f <= 64)
	return f
}

func symExtent() float32 {
	f := verifnd.F32()
	verifnd.Assume(f >= 0.015625 && f <= 8)
	return f
}

func symQuad() Quad {
	return Quad{Center: Vector3f{symCoord(), symCoord(), symCoord()}, Extents: Vector3f{symExtent(), 0, symExtent()}}
}

// VerifC20Overlap: doHorizontalPlanesOverlap agrees with the open-interval overlap of the (rounded) corner
// coordinates on both horizontal axes, for all finite quads within 64 m (bit-precise float32).
func VerifC20Overlap() {
	a, b := symQuad(), symQuad()
	got := doHorizontalPlanesOverlap(a, b)
	aMinX, aMaxX := a.Center.x-a.Extents.x, a.Center.x+a.Extents.x
	bMinX, bMaxX := b.Center.x-b.Extents.x, b.Center.x+b.Extents.x
	aMinZ, aMaxZ := a.Center.z-a.Extents.z, a.Center.z+a.Extents.z
	bMinZ, bMaxZ := b.Center.z-b.Extents.z, b.Center.z+b.Extents.z
	want := verifnd.And(aMinX < bMaxX, bMinX < aMaxX, aMinZ < bMaxZ, bMinZ < aMaxZ)
	verifnd.Assert(verifnd.Iff(got, want), "C20.overlap.matches_interval_reference")
	// symmetric
	verifnd.Assert(got == doHorizontalPlanesOverlap(b, a), "C20.overlap.symmetric")
	verifnd.Reach("C20.overlap.done")
}

func symCoordR(r float32) float32 {
	f := verifnd.F32()
	verifnd.Assume(f >= -r && f <= r)
	return f
}

// gridDimsOK: the cell matrix matches the bounds: rows = (Max.z-Min.z)/resolution, every row has (Max.x-Min.x)/resolution cells.
func gridDimsOK(g *RegularGrid) bool {
	res := float32(g.Resolution)
	ok := float32(len(g.Grid))*res == g.Max.z-g.Min.z
	for i := range g.Grid {
		ok = verifnd.And(ok, float32(len(g.Grid[i]))*res == g.Max.x-g.Min.x)
	}
	return ok
}

// VerifC20Expand: one ExpandToFitPoint from the fresh 1x1 grid of the production configuration (or from a
// grid already grown once) with an arbitrary point within the coordinate bound: afterwards the point lies in
// [Min, Max) on both axes and the cell matrix matches the bounds.
func VerifC20Expand() {
	g := NewRegularGrid(1, 1, 2)
	bound := float32(4)
	if verifnd.Tier() == 1 {
		bound = 8
	}
	if verifnd.Tier() == 1 && verifnd.Bool() {
		// a grid that has already grown in one of the four diagonal directions (two symbolic points in a row
		// do not finish: 2 h without a verdict)
		bound = 4
		var p0 Vector3f
		switch verifnd.Choice(4) {
		case 0:
			p0 = Vector3f{5, 0, 5}
		case 1:
			p0 = Vector3f{-3, 0, 5}
		case 2:
			p0 = Vector3f{5, 0, -3}
		default:
			p0 = Vector3f{-3, 0, -3}
		}
		g.ExpandToFitPoint(&p0)
		verifnd.Assert(gridDimsOK(g), "C20.expand.dimensions_match_bounds", "first")
	}
	p := Vector3f{symCoordR(bound), 0, symCoordR(bound)}
	g.ExpandToFitPoint(&p)
	verifnd.Assert(verifnd.And(p.x >= g.Min.x, p.x < g.Max.x, p.z >= g.Min.z, p.z < g.Max.z), "C20.expand.point_inside_bounds")
	verifnd.Assert(gridDimsOK(g), "C20.expand.dimensions_match_bounds", "second")
	verifnd.Assert(len(g.Grid) >= 1 && len(g.Grid[0]) >= 1, "C20.expand.never_empty")
	verifnd.Reach("C20.expand.done")
}

// registeredEverywhere: plane q is registered in every cell its footprint [c-e, c+e] overlaps (open intervals
// against half-open cells), and in no cell twice.
func registeredEverywhere(g *RegularGrid, q *Quad) bool {
	res := float32(g.Resolution)
	minX, maxX := q.Center.x-q.Extents.x, q.Center.x+q.Extents.x
	minZ, maxZ := q.Center.z-q.Extents.z, q.Center.z+q.Extents.z
	ok := true
	for i := range g.Grid {
		for j := range g.Grid[i] {
			cellMinX, cellMinZ := g.Min.x+float32(j)*res, g.Min.z+float32(i)*res
			overlaps := verifnd.And(minX < cellMinX+res, maxX >= cellMinX, minZ < cellMinZ+res, maxZ >= cellMinZ)
			n := 0
			for _, p := range g.Grid[i][j] {
				if p == q {
					n++
				}
			}
			ok = verifnd.And(ok, n <= 1, verifnd.Implies(overlaps, n == 1))
		}
	}
	return ok
}

// VerifC20Insert: one quad inserted into the fresh production grid (append case): bounds contain the
// footprint, the plane is registered in every overlapped cell, a region query over the whole grid returns it
// exactly once and the plane count is 1.
func VerifC20Insert() {
	g := NewRegularGrid(1, 1, 2)
	bound := float32(3)
	c := Vector3f{symCoordR(bound), symCoordR(1), symCoordR(bound)}
	e := Vector3f{verifnd.F32(), 0, verifnd.F32()}
	verifnd.Assume(e.x >= 0.25 && e.x <= 1 && e.z >= 0.25 && e.z <= 1)
	q := Quad{Center: c, Extents: e, Normal: calculateNormal(c, e)}
	g.InsertQuad(q)
	verifnd.Assert(g.PlaneCount == 1, "C20.insert.plane_count")
	verifnd.Assert(verifnd.And(c.x-e.x >= g.Min.x, c.x+e.x < g.Max.x, c.z-e.z >= g.Min.z, c.z+e.z < g.Max.z), "C20.insert.bounds_contain_footprint")
	verifnd.Assert(gridDimsOK(g), "C20.insert.dimensions_match_bounds")
	// find the stored plane
	var stored *Quad
	for i := range g.Grid {
		for j := range g.Grid[i] {
			for _, p := range g.Grid[i][j] {
				stored = p
			}
		}
	}
	verifnd.Assert(stored != nil, "C20.insert.stored")
	if stored != nil {
		verifnd.Assert(registeredEverywhere(g, stored), "C20.insert.registered_in_every_overlapped_cell")
		region := g.GetRegion(g.Min, g.Max)
		verifnd.Assert(len(region) == 1 && region[0] == stored, "C20.insert.region_returns_it_once")
	}
	verifnd.Reach("C20.insert.done")
}

// menuQuad: a small menu of concrete quads chosen to exercise appends, merges (same height, overlapping),
// growth of the grid in all four directions and merges that move a plane across cell boundaries diagonally.
func menuQuad(k int) Quad {
	var c, e Vector3f
	switch k {
	case 0:
		c, e = Vector3f{1, 0, 1}, Vector3f{0.5, 0, 0.5}
	case 1:
		c, e = Vector3f{1.2, 0.1, 1.2}, Vector3f{3, 0, 3} // merges into 0, grows diagonally over cell boundaries
	case 2:
		c, e = Vector3f{-3, 0, 1}, Vector3f{0.5, 0, 0.5} // grows left
	case 3:
		c, e = Vector3f{1, 0, -3}, Vector3f{0.5, 0, 0.5} // grows up
	case 4:
		c, e = Vector3f{5, 0, 5}, Vector3f{0.75, 0, 0.75} // grows right and down
	case 5:
		c, e = Vector3f{1, 2.5, 1}, Vector3f{0.5, 0, 0.5} // same footprint, other height: no merge
	case 6:
		c, e = Vector3f{1.5, 0.2, 0.5}, Vector3f{1.5, 0, 0.25} // merges, changes aspect
	default:
		c, e = Vector3f{-1, 0, -1}, Vector3f{2.5, 0, 2.5} // large, grows left/up, overlaps 0
	}
	return Quad{Center: c, Extents: e, Normal: calculateNormal(c, e)}
}

// VerifC20Sequences: sequences of 2 (thorough 3) inserts from the menu into the production grid; after every
// insert the index is complete: every stored plane is registered in every cell its footprint overlaps, a
// region query over the grid returns every stored plane exactly once, a vertical ray through the centre of a
// stored plane hits a plane, the bounds contain every footprint and the plane count equals the number of
// distinct stored planes. (Concrete coordinates: decided by the executor's constant folding, not by the solver.)
func VerifC20Sequences() {
	g := NewRegularGrid(1, 1, 2)
	n := 2
	if verifnd.Tier() == 1 {
		n = 3
	}
	for step := 0; step < n; step++ {
		k := verifnd.Choice(8)
		g.InsertQuad(menuQuad(k))
		distinct := map[*Quad]bool{}
		for i := range g.Grid {
			for j := range g.Grid[i] {
				for _, p := range g.Grid[i][j] {
					distinct[p] = true
				}
			}
		}
		verifnd.Assert(int(g.PlaneCount) == len(distinct), "C20.seq.plane_count_equals_distinct_planes")
		verifnd.Assert(gridDimsOK(g), "C20.seq.dimensions_match_bounds")
		region := g.GetRegion(g.Min, g.Max)
		verifnd.Assert(len(region) == len(distinct), "C20.seq.region_returns_every_plane_once")
		for p := range distinct {
			verifnd.Assert(registeredEverywhere(g, p), "C20.seq.registered_in_every_overlapped_cell")
			verifnd.Assert(verifnd.And(p.Center.x-p.Extents.x >= g.Min.x, p.Center.x+p.Extents.x <= g.Max.x, p.Center.z-p.Extents.z >= g.Min.z, p.Center.z+p.Extents.z <= g.Max.z), "C20.seq.bounds_contain_footprints")
			hit, _ := g.IntersectQuad(Ray{From: Vector3f{p.Center.x, p.Center.y + 1, p.Center.z}, To: Vector3f{p.Center.x, p.Center.y - 1, p.Center.z}})
			verifnd.Assert(hit != nil, "C20.seq.vertical_ray_through_centre_hits")
		}
	}
	verifnd.Reach("C20.seq.done")
}

// VerifC08Region: a region query against a grid of 3x3 cells holding two planes; one coordinate of its
// corners is an arbitrary float32 (every bit pattern), the others are ordinary values inside or around the
// grid: no index out of range, and only stored planes are returned.
func VerifC08Region() {
	g := NewRegularGrid(1, 1, 2)
	g.InsertQuad(menuQuad(0))
	g.InsertQuad(menuQuad(4))
	def := [6]float32{0.5, 0, 0.5, 3.5, 0, 3.5}
	if verifnd.Bool() {
		def = [6]float32{-1, 0, -1, 100, 0, 100}
	}
	v := oneFree(verifnd.Choice(6), def)
	res := g.GetRegion(Vector3f{v[0], v[1], v[2]}, Vector3f{v[3], v[4], v[5]})
	verifnd.Assert(len(res) <= 2, "C08.region.returns_stored_planes_only")
	verifnd.Reach("C08.region.done")
}

// VerifC08RegionFree: the same query with all four horizontal coordinates arbitrary at once.
func VerifC08RegionFree() {
	g := NewRegularGrid(1, 1, 2)
	g.InsertQuad(menuQuad(0))
	g.InsertQuad(menuQuad(4))
	res := g.GetRegion(Vector3f{verifnd.F32(), 0, verifnd.F32()}, Vector3f{verifnd.F32(), 0, verifnd.F32()})
	verifnd.Assert(len(res) <= 2, "C08.region.returns_stored_planes_only")
	verifnd.Reach("C08.region.done")
}

// VerifC08Ray: a ground-plane ray against the same grid: a ray inside the grid, or one that crosses it from
// beyond its far corner, with one coordinate an arbitrary float32: no panic, and the walk over the cells ends.
func VerifC08Ray() {
	g := NewRegularGrid(1, 1, 2)
	g.ExpandToFitPoint(&Vector3f{5, 0, 5}) // 3x3 cells, no stored plane: the walk itself is the subject
	def := [6]float32{0.5, 1, 0.5, 1.5, -1, 3.5}
	if verifnd.Bool() {
		def = [6]float32{1, 1, 9, 1.5, -1, -5}
	}
	v := oneFree(verifnd.Choice(6), def)
	g.IntersectQuad(Ray{From: Vector3f{v[0], v[1], v[2]}, To: Vector3f{v[3], v[4], v[5]}})
	verifnd.Reach("C08.ray.done")
}

// VerifC08RayVertical: a vertical ground-plane ray (the query a client sends to find the floor under a
// point) at an arbitrary position — one horizontal coordinate an arbitrary float32 (thorough: both at once) — against a wide
// grid (1x3 cells), a tall one (3x1) and a square one (3x3): the cell lookup never indexes outside the grid.
// (The cells hold no plane: the per-plane intersection is pure arithmetic and cannot panic.)
func VerifC08RayVertical() {
	g := NewRegularGrid(1, 1, 2)
	switch verifnd.Choice(3) {
	case 0:
		g.ExpandToFitPoint(&Vector3f{5, 0, 0.5})
	case 1:
		g.ExpandToFitPoint(&Vector3f{0.5, 0, 5})
	default:
		g.ExpandToFitPoint(&Vector3f{5, 0, 5})
	}
	x, z := float32(1), float32(1)
	switch {
	case verifnd.Tier() == 1:
		x, z = verifnd.F32(), verifnd.F32()
	case verifnd.Bool():
		x = verifnd.F32()
	default:
		z = verifnd.F32()
	}
	hit, _ := g.IntersectQuad(Ray{From: Vector3f{x, 1, z}, To: Vector3f{x, -1, z}})
	verifnd.Assert(hit == nil, "C08.ray_vertical.empty_grid_no_hit")
	verifnd.Reach("C08.ray_vertical.done")
}

// VerifC08RayMenu: slanted ground-plane rays on CONCRETE coordinates (the cell walk with a symbolic
// coordinate does not finish, see DESIGN §I.6; this is enumeration, not a solver verdict): rays entering the
// grid from beyond each edge and corner, leaving it from inside, grazing cell borders and its far edge,
// against a wide, a tall and a square grid holding two planes: no panic, and the walk terminates.
func VerifC08RayMenu() {
	g := NewRegularGrid(1, 1, 2)
	switch verifnd.Choice(3) {
	case 0:
		g.InsertQuad(Quad{Center: Vector3f{5, 0, 0.5}, Extents: Vector3f{0.5, 0, 0.5}, Normal: Vector3f{0, 1, 0}})
	case 1:
		g.InsertQuad(Quad{Center: Vector3f{0.5, 0, 5}, Extents: Vector3f{0.5, 0, 0.5}, Normal: Vector3f{0, 1, 0}})
	default:
		g.InsertQuad(menuQuad(0))
		g.InsertQuad(menuQuad(4))
	}
	coord := func(k int) float32 {
		switch k {
		case 0:
			return -3 // beyond the near edge
		case 1:
			return 0 // on the near edge
		case 2:
			return 1 // inside the first cell
		case 3:
			return 2 // on a cell border
		case 4:
			return 6 // on the far edge of the 3-cell axis (beyond the 1-cell axis)
		case 5:
			return 9 // beyond the far edge
		case 6:
			return 1e9 // far away
		case 7:
			return -3e38 // about as far as a float32 goes
		case 8:
			return float32(math.Inf(1))
		default:
			return float32(math.NaN())
		}
	}
	fx, fz, tx, tz := coord(verifnd.Choice(10)), coord(verifnd.Choice(10)), coord(verifnd.Choice(10)), coord(verifnd.Choice(10))
	// the walk over the cells returns: a ray crosses a bounded number of cells however long it is
	verifnd.Terminates(200000, "C08.ray_menu.walk_returns")
	g.IntersectQuad(Ray{From: Vector3f{fx, 1, fz}, To: Vector3f{tx, -1, tz}})
	verifnd.Terminates(0, "")
	verifnd.Reach("C08.ray_menu.done")
}

// oneFree returns six coordinates: the one chosen by which is an arbitrary float32 (every bit pattern,
// including NaN, the infinities and the largest finite values), the others keep the given defaults.
func oneFree(which int, def [6]float32) [6]float32 {
	def[which] = verifnd.F32()
	return def
}

// VerifC08InsertFar: one ground-plane sample with one coordinate of its centre or extents far away
// (64 m or more from the origin), huge, infinite or NaN — any such float32 — and the others ordinary: the
// grid never allocates more than a server survives and nothing panics. (Samples within 64 m are the subject
// of the C20 harnesses; paths are followed up to the first allocation of more than a dozen cells.)
func VerifC08InsertFar() {
	g := NewRegularGrid(1, 1, 2)
	which := verifnd.Choice(6)
	v := oneFree(which, [6]float32{0.5, 0, 0.5, 0.25, 0, 0.25})
	far := v[which]
	verifnd.Assume(!(far > -64 && far < 64))
	q := Quad{Center: Vector3f{v[0], v[1], v[2]}, Extents: Vector3f{v[3], v[4], v[5]}, Normal: Vector3f{0, 1, 0}}
	g.InsertQuad(q)
	verifnd.Reach("C08.insert_far.returned")
}
