//go:build verif

package receipt

import (
	"bytes"
	"context"
	"encoding/json"
	"io"
	"net/http"
	"net/http/httptest"
	"strings"
	"sync"
	"time"

	"github.com/aukilabs/hagall-common/ncsclient"
	"github.com/aukilabs/hagall/internal/verifnd"
	"github.com/ethereum/go-ethereum/crypto"
)

// ncsRecorder is the harness-owned credit-service endpoint (natively an HTTP server; under the engine the
// ncsclient stub records the posts).
type ncsRecorder struct {
	mu      sync.Mutex
	posts   []ncsclient.ReceiptPayload
	fail    map[int]bool // requests (by arrival order) that are received and then fail
	hold    map[int]bool // requests that are received but not answered before release is closed
	release chan struct{}
	srv     *httptest.Server
	url     string
}

func newNCSRecorder() *ncsRecorder {
	r := &ncsRecorder{url: "ncs"}
	if verifnd.Symbolic() {
		return r
	}
	r.srv = httptest.NewServer(http.HandlerFunc(func(w http.ResponseWriter, req *http.Request) {
		b, _ := io.ReadAll(req.Body)
		var p ncsclient.ReceiptPayload
		failing, holding := false, false
		if json.Unmarshal(b, &p) == nil {
			r.mu.Lock()
			failing = r.fail[len(r.posts)]
			holding = r.hold[len(r.posts)]
			r.posts = append(r.posts, p)
			r.mu.Unlock()
		}
		if holding {
			<-r.release
		}
		if failing {
			panic(http.ErrAbortHandler) // the service got the receipt, the client sees a broken connection
		}
		w.WriteHeader(200)
	}))
	r.url = r.srv.URL
	return r
}

// failAt plans that the k-th request is received and then fails (engine: the stub; natively: this endpoint).
func (r *ncsRecorder) failAt(k int) {
	verifnd.NCSFail(k)
	r.mu.Lock()
	if r.fail == nil {
		r.fail = map[int]bool{}
	}
	r.fail[k] = true
	r.mu.Unlock()
}

// holdAt plans that the k-th request is received but only answered after releaseAll.
func (r *ncsRecorder) holdAt(k int) {
	verifnd.NCSHold(k)
	r.mu.Lock()
	if r.hold == nil {
		r.hold = map[int]bool{}
		r.release = make(chan struct{})
	}
	r.hold[k] = true
	r.mu.Unlock()
}

func (r *ncsRecorder) releaseAll() {
	verifnd.NCSRelease()
	if r.release != nil {
		close(r.release)
	}
}

func (r *ncsRecorder) recorded() []ncsclient.ReceiptPayload {
	if verifnd.Symbolic() {
		return verifnd.NCSPosts()
	}
	time.Sleep(150 * time.Millisecond)
	r.mu.Lock()
	defer r.mu.Unlock()
	return append([]ncsclient.ReceiptPayload{}, r.posts...)
}

// VerifC19Pipeline: up to 3 submissions, each with a hash that is the Keccak-256 of the text or something
// else and a signature that is a signature over the hash or junk (Keccak, Sign, Ecrecover uninterpreted);
// the credit service answers arbitrarily. Forwarded = exactly the well-formed ones, each once, unchanged.
func VerifC19Pipeline() {
	rec := newNCSRecorder()
	ch := make(chan ncsclient.ReceiptPayload, 128)
	rh := ReceiptHandler{NCSEndpoint: rec.url, ReceiptChan: ch}
	ctx, cancel := context.WithCancel(context.Background())
	rh.HandleReceipts(ctx)
	key, _ := crypto.GenerateKey()
	// the credit service answers arbitrarily: each of its first three requests succeeds, or is received and fails
	for k := 0; k < 3; k++ {
		if verifnd.Bool() {
			rec.failAt(k)
		}
	}

	n := 1 + verifnd.Choice(2)
	if verifnd.Tier() == 1 {
		n = 1 + verifnd.Choice(3)
	}
	type sub struct {
		p             ncsclient.ReceiptPayload
		hashOK, sigOK bool
		hc            int
	}
	subs := make([]sub, n)
	for i := range subs {
		text := verifnd.Str()
		good := crypto.Keccak256Hash([]byte(text)).Bytes()
		var s sub
		hc := verifnd.Choice(5)
		s.hc = hc
		s.hashOK = hc == 0
		switch hc {
		case 0:
			s.p.Hash = good
		case 1:
			s.p.Hash = verifnd.Bytes(64)
			verifnd.Assume(!bytes.Equal(s.p.Hash, good))
		default: // every single-field corruption of the valid hash: junk prepended, truncated, one byte flipped
			s.p.Hash = verifnd.CorruptBytes(good, hc-2)
		}
		s.sigOK = verifnd.Bool()
		if s.sigOK {
			// a genuine signature over the digest of the text
			sig, err := crypto.Sign(good, key)
			if err != nil {
				return
			}
			s.p.Signature = sig
		} else {
			s.p.Signature = verifnd.Bytes(80)
			_, err := crypto.Ecrecover(s.p.Hash, s.p.Signature)
			verifnd.Assume(err != nil)
		}
		s.p.Receipt = text
		subs[i] = s
		// distinct texts so that forwarded receipts can be told apart
		for j := 0; j < i; j++ {
			verifnd.Assume(subs[j].p.Receipt != text)
		}
		ch <- s.p
	}
	verifnd.Quiesce()
	got := rec.recorded()
	for i, s := range subs {
		cnt := 0
		for _, g := range got {
			if g.Receipt == s.p.Receipt {
				cnt++
				verifnd.Assert(bytes.Equal(g.Hash, s.p.Hash) && bytes.Equal(g.Signature, s.p.Signature), "C19.forwarded_unchanged")
			}
		}
		wellFormed := s.hashOK && s.sigOK
		verifnd.Assert(cnt <= 1, "C19.forwarded_at_most_once")
		verifnd.Assert(wellFormed == (cnt == 1), "C19.forwarded_iff_well_formed", caseName(s.hashOK, s.sigOK), hashCase(s.hc))
		verifnd.Observe("c19", uint64(i), verifnd.B2U(s.hashOK), verifnd.B2U(s.sigOK), uint64(cnt))
	}
	verifnd.Assert(len(got) <= n, "C19.nothing_else_forwarded")
	cancel()
	if rec.srv != nil {
		rec.srv.Close()
	}
	verifnd.Reach("C19.pipeline.done")
}

func caseName(h, s bool) string {
	switch {
	case h && s:
		return "valid"
	case h:
		return "bad_signature"
	case s:
		return "bad_hash"
	}
	return "bad_hash_and_signature"
}

func hashCase(hc int) string {
	switch hc {
	case 0:
		return "hash_valid"
	case 1:
		return "hash_arbitrary"
	case 2:
		return "hash_junk_prepended"
	case 3:
		return "hash_truncated"
	}
	return "hash_byte_flipped"
}

// VerifC19Bursts: two bursts of two well-formed receipts each; the credit service receives the first request
// and keeps the forwarding goroutine waiting while the second burst is verified and forwarded; then it answers.
// Every receipt reaches the service exactly once, unchanged.
func VerifC19Bursts() {
	rec := newNCSRecorder()
	rec.holdAt(0)
	ch := make(chan ncsclient.ReceiptPayload, 128)
	rh := ReceiptHandler{NCSEndpoint: rec.url, ReceiptChan: ch}
	ctx, cancel := context.WithCancel(context.Background())
	key, _ := crypto.GenerateKey()
	mk := func(text string) ncsclient.ReceiptPayload {
		h := crypto.Keccak256Hash([]byte(text)).Bytes()
		sig, err := crypto.Sign(h, key)
		verifnd.Assert(err == nil, "setup.bursts.sign")
		return ncsclient.ReceiptPayload{Receipt: text, Hash: h, Signature: sig}
	}
	texts := []string{"receipt-a", "receipt-b", "receipt-c", "receipt-d"}
	ch <- mk(texts[0])
	ch <- mk(texts[1])
	rh.HandleReceipts(ctx)
	verifnd.Quiesce()
	if !verifnd.Symbolic() {
		// natively: wait until the service holds the first request
		for i := 0; i < 400; i++ {
			rec.mu.Lock()
			n := len(rec.posts)
			rec.mu.Unlock()
			if n >= 1 {
				break
			}
			time.Sleep(10 * time.Millisecond)
		}
		time.Sleep(100 * time.Millisecond)
	}
	// the second burst starts with a malformed receipt (natively a very long one, so that the verifying goroutine
	// is still busy hashing it when the two well-formed ones are queued behind it)
	badText := "malformed"
	if !verifnd.Symbolic() {
		badText = strings.Repeat("x", 48<<20)
	}
	// its hash is the digest with one byte flipped (a structured corruption the engine's byte model decides)
	bad := ncsclient.ReceiptPayload{Receipt: badText, Hash: verifnd.CorruptBytes(crypto.Keccak256Hash([]byte(badText)).Bytes(), 2), Signature: []byte{4}}
	ch <- bad
	ch <- mk(texts[2])
	ch <- mk(texts[3])
	verifnd.Quiesce()
	if !verifnd.Symbolic() {
		time.Sleep(2500 * time.Millisecond)
	}
	rec.releaseAll()
	verifnd.Quiesce()
	if !verifnd.Symbolic() {
		// natively: give the pipeline time to deliver everything it is going to deliver
		for i := 0; i < 800; i++ {
			rec.mu.Lock()
			n := len(rec.posts)
			rec.mu.Unlock()
			if n >= len(texts) {
				break
			}
			time.Sleep(10 * time.Millisecond)
		}
		time.Sleep(300 * time.Millisecond)
	}
	got := rec.recorded()
	for _, t := range texts {
		n := 0
		for _, g := range got {
			if g.Receipt == t {
				n++
			}
		}
		verifnd.Assert(n == 1, "C19.bursts.each_forwarded_exactly_once", t)
	}
	verifnd.Assert(len(got) == len(texts), "C19.nothing_else_forwarded")
	cancel()
	if rec.srv != nil {
		rec.srv.Close()
	}
	verifnd.Reach("C19.bursts.done")
}
