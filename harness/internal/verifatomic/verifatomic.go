//go:build verif

// Package verifatomic is the scheduling-aware drop-in for sync/atomic used by the native schedule replay (import
// swap in the build overlay only): every operation is preceded by the scheduling point the engine places there.
package verifatomic

import (
	"sync/atomic"

	sync "github.com/aukilabs/hagall/internal/verifsync"
)

func AddInt32(addr *int32, delta int32) int32 { sync.Point(); return atomic.AddInt32(addr, delta) }
func LoadInt32(addr *int32) int32 { sync.Point(); return atomic.LoadInt32(addr) }
func StoreInt32(addr *int32, val int32) { sync.Point(); atomic.StoreInt32(addr, val) }
func SwapInt32(addr *int32, val int32) int32 { sync.Point(); return atomic.SwapInt32(addr, val) }
func CompareAndSwapInt32(addr *int32, old, new int32) bool { sync.Point(); return atomic.CompareAndSwapInt32(addr, old, new) }

type Int32 struct{ v atomic.Int32 }

func (x *Int32) Load() int32 { sync.Point(); return x.v.Load() }
func (x *Int32) Store(val int32) { sync.Point(); x.v.Store(val) }
func (x *Int32) Swap(val int32) int32 { sync.Point(); return x.v.Swap(val) }
func (x *Int32) CompareAndSwap(old, new int32) bool { sync.Point(); return x.v.CompareAndSwap(old, new) }
func (x *Int32) Add(delta int32) int32 { sync.Point(); return x.v.Add(delta) }

func AddInt64(addr *int64, delta int64) int64 { sync.Point(); return atomic.AddInt64(addr, delta) }
func LoadInt64(addr *int64) int64 { sync.Point(); return atomic.LoadInt64(addr) }
func StoreInt64(addr *int64, val int64) { sync.Point(); atomic.StoreInt64(addr, val) }
func SwapInt64(addr *int64, val int64) int64 { sync.Point(); return atomic.SwapInt64(addr, val) }
func CompareAndSwapInt64(addr *int64, old, new int64) bool { sync.Point(); return atomic.CompareAndSwapInt64(addr, old, new) }

type Int64 struct{ v atomic.Int64 }

func (x *Int64) Load() int64 { sync.Point(); return x.v.Load() }
func (x *Int64) Store(val int64) { sync.Point(); x.v.Store(val) }
func (x *Int64) Swap(val int64) int64 { sync.Point(); return x.v.Swap(val) }
func (x *Int64) CompareAndSwap(old, new int64) bool { sync.Point(); return x.v.CompareAndSwap(old, new) }
func (x *Int64) Add(delta int64) int64 { sync.Point(); return x.v.Add(delta) }

func AddUint32(addr *uint32, delta uint32) uint32 { sync.Point(); return atomic.AddUint32(addr, delta) }
func LoadUint32(addr *uint32) uint32 { sync.Point(); return atomic.LoadUint32(addr) }
func StoreUint32(addr *uint32, val uint32) { sync.Point(); atomic.StoreUint32(addr, val) }
func SwapUint32(addr *uint32, val uint32) uint32 { sync.Point(); return atomic.SwapUint32(addr, val) }
func CompareAndSwapUint32(addr *uint32, old, new uint32) bool { sync.Point(); return atomic.CompareAndSwapUint32(addr, old, new) }

type Uint32 struct{ v atomic.Uint32 }

func (x *Uint32) Load() uint32 { sync.Point(); return x.v.Load() }
func (x *Uint32) Store(val uint32) { sync.Point(); x.v.Store(val) }
func (x *Uint32) Swap(val uint32) uint32 { sync.Point(); return x.v.Swap(val) }
func (x *Uint32) CompareAndSwap(old, new uint32) bool { sync.Point(); return x.v.CompareAndSwap(old, new) }
func (x *Uint32) Add(delta uint32) uint32 { sync.Point(); return x.v.Add(delta) }

func AddUint64(addr *uint64, delta uint64) uint64 { sync.Point(); return atomic.AddUint64(addr, delta) }
func LoadUint64(addr *uint64) uint64 { sync.Point(); return atomic.LoadUint64(addr) }
func StoreUint64(addr *uint64, val uint64) { sync.Point(); atomic.StoreUint64(addr, val) }
func SwapUint64(addr *uint64, val uint64) uint64 { sync.Point(); return atomic.SwapUint64(addr, val) }
func CompareAndSwapUint64(addr *uint64, old, new uint64) bool { sync.Point(); return atomic.CompareAndSwapUint64(addr, old, new) }

type Uint64 struct{ v atomic.Uint64 }

func (x *Uint64) Load() uint64 { sync.Point(); return x.v.Load() }
func (x *Uint64) Store(val uint64) { sync.Point(); x.v.Store(val) }
func (x *Uint64) Swap(val uint64) uint64 { sync.Point(); return x.v.Swap(val) }
func (x *Uint64) CompareAndSwap(old, new uint64) bool { sync.Point(); return x.v.CompareAndSwap(old, new) }
func (x *Uint64) Add(delta uint64) uint64 { sync.Point(); return x.v.Add(delta) }

func AddUintptr(addr *uintptr, delta uintptr) uintptr { sync.Point(); return atomic.AddUintptr(addr, delta) }
func LoadUintptr(addr *uintptr) uintptr { sync.Point(); return atomic.LoadUintptr(addr) }
func StoreUintptr(addr *uintptr, val uintptr) { sync.Point(); atomic.StoreUintptr(addr, val) }
func SwapUintptr(addr *uintptr, val uintptr) uintptr { sync.Point(); return atomic.SwapUintptr(addr, val) }
func CompareAndSwapUintptr(addr *uintptr, old, new uintptr) bool { sync.Point(); return atomic.CompareAndSwapUintptr(addr, old, new) }

type Bool struct{ v atomic.Bool }

func (x *Bool) Load() bool { sync.Point(); return x.v.Load() }
func (x *Bool) Store(val bool) { sync.Point(); x.v.Store(val) }
func (x *Bool) Swap(val bool) bool { sync.Point(); return x.v.Swap(val) }
func (x *Bool) CompareAndSwap(old, new bool) bool { sync.Point(); return x.v.CompareAndSwap(old, new) }

type Value struct{ v atomic.Value }

func (x *Value) Load() any { sync.Point(); return x.v.Load() }
func (x *Value) Store(val any) { sync.Point(); x.v.Store(val) }
func (x *Value) Swap(val any) any { sync.Point(); return x.v.Swap(val) }
func (x *Value) CompareAndSwap(old, new any) bool { sync.Point(); return x.v.CompareAndSwap(old, new) }

type Pointer[T any] struct{ v atomic.Pointer[T] }

func (x *Pointer[T]) Load() *T { sync.Point(); return x.v.Load() }
func (x *Pointer[T]) Store(val *T) { sync.Point(); x.v.Store(val) }
func (x *Pointer[T]) Swap(val *T) *T { sync.Point(); return x.v.Swap(val) }
func (x *Pointer[T]) CompareAndSwap(old, new *T) bool { sync.Point(); return x.v.CompareAndSwap(old, new) }
