//go:build verif

// Package verifnd is the nondeterminism / assertion API used by verification harnesses.
//
// Under the symbolic engine (symgo) every function here is intercepted: scalars become SMT
// constants, Bool/Choice become forks, Assert becomes a solver query. Compiled natively (this
// file), the same calls read their values from a replay file produced from a solver model, so a
// counterexample becomes an ordinary run of the real code.
package verifnd

import (
	"bytes"
	"encoding/json"
	"fmt"
	"math"
	"os"
	"reflect"
	"runtime"
	"strings"
	"sync"
	"time"
	"unsafe"

	"github.com/aukilabs/hagall-common/ncsclient"
	"github.com/aukilabs/hagall/internal/veriftime"
	"github.com/prometheus/client_golang/prometheus"
)

type ndValue struct {
	Kind string `json:"kind"`
	V    uint64 `json:"v"`
	S    string `json:"s,omitempty"`
}

// ParRunner, when set (by the schedule-replay build), runs Par blocks under the deterministic controller.
var ParRunner func(fs []func(), sched []int, maxPre int)

var schedule []int

var (
	mu      sync.Mutex
	values  []ndValue
	pos     int
	Out     = os.Stdout
	Failed  []string
	Reached = map[string]bool{}
)

// AssertFailure is panicked by Assert natively.
type AssertFailure struct{ Label string }

// Load reads the replay values.
func Load(path string) error {
	b, err := os.ReadFile(path)
	if err != nil {
		return err
	}
	var doc struct {
		ND []ndValue `json:"nd"`
	}
	if err := json.Unmarshal(b, &doc); err != nil {
		return err
	}
	values, pos = doc.ND, 0
	schedule = nil
	for _, v := range doc.ND {
		if v.Kind == "sched" {
			schedule = append(schedule, int(v.V))
		}
	}
	Failed = nil
	Reached = map[string]bool{}
	return nil
}

func next(kinds ...string) ndValue {
	mu.Lock()
	defer mu.Unlock()
	for pos < len(values) {
		v := values[pos]
		pos++
		switch v.Kind {
		case "clock", "order", "sched", "select", "yield":
			continue // engine-only entries
		}
		for _, k := range kinds {
			if v.Kind == k {
				return v
			}
		}
		panic(fmt.Sprintf("verifnd: replay desync: want %v, file has %q at %d", kinds, v.Kind, pos-1))
	}
	panic(fmt.Sprintf("verifnd: replay values exhausted (want %v)", kinds))
}

func U8() uint8   { return uint8(next("u8").V) }
func U32() uint32 { return uint32(next("u32").V) }
func U64() uint64 { return next("u64").V }
func I32() int32  { return int32(next("i32").V) }
func I64() int64  { return int64(next("i64").V) }
func F32() float32 {
	return math.Float32frombits(uint32(next("f32").V))
}
func F64() float64  { return math.Float64frombits(next("f64").V) }
func SymBool() bool { return next("symbool").V != 0 }
func Bool() bool    { return next("bool").V != 0 }
func Choice(n int) int {
	v := int(next("choice").V)
	if v >= n {
		panic("verifnd: choice out of range")
	}
	return v
}

// Bytes returns an arbitrary byte slice of length 0..max (engine: opaque content, symbolic length).
func Bytes(max int) []byte {
	n := int(next("bytes").V)
	if n == 0 {
		return nil
	}
	b := make([]byte, n)
	for i := range b {
		b[i] = byte(i*7 + 3)
	}
	return b
}

// Str returns an arbitrary string (engine: symbolic; compared only by equality and emptiness).
func Str() string {
	v := next("str")
	if v.S != "" || v.V == 0 {
		return v.S
	}
	return fmt.Sprintf("sym-%d", v.V)
}

func Assume(c bool) {
	if !c {
		panic("verifnd: assumption violated natively (replay does not follow the model)")
	}
}

// Assert states a property. label names the clause; keys are cause keys used to match known findings.
func Assert(c bool, label string, keys ...string) {
	if !c {
		mu.Lock()
		Failed = append(Failed, label)
		mu.Unlock()
		fmt.Fprintf(Out, "VERIFND-ASSERT-FAILED %s %s\n", label, strings.Join(keys, ","))
	}
}

func Reach(label string) {
	mu.Lock()
	Reached[label] = true
	mu.Unlock()
	fmt.Fprintf(Out, "VERIFND-REACH %s\n", label)
}

// Observe records an observable event; the engine's prediction for a witness path is compared with this output.
func Observe(label string, vals ...uint64) {
	var sb strings.Builder
	for _, v := range vals {
		fmt.Fprintf(&sb, " %d", v)
	}
	fmt.Fprintf(Out, "VERIFND-OBS %s%s\n", label, sb.String())
}

func And(a ...bool) bool {
	for _, x := range a {
		if !x {
			return false
		}
	}
	return true
}
func Or(a ...bool) bool {
	for _, x := range a {
		if x {
			return true
		}
	}
	return false
}
func Implies(a, b bool) bool { return !a || b }
func Iff(a, b bool) bool     { return a == b }
func IteU32(c bool, a, b uint32) uint32 {
	if c {
		return a
	}
	return b
}
func IteU64(c bool, a, b uint64) uint64 {
	if c {
		return a
	}
	return b
}
func IteBool(c, a, b bool) bool {
	if c {
		return a
	}
	return b
}
func IteStr(c bool, a, b string) string {
	if c {
		return a
	}
	return b
}
func B2U(b bool) uint64 {
	if b {
		return 1
	}
	return 0
}
func F32Bits(f float32) uint64 { return uint64(math.Float32bits(f)) }

// SameF32: IEEE-equal or both NaN.
func SameF32(a, b float32) bool  { return a == b || (a != a && b != b) }
func SameBytes(a, b []byte) bool { return bytes.Equal(a, b) }
func BytesID(b []byte) uint64    { return uint64(len(b)) }
func StrID(s string) uint64      { return uint64(len(s)) }
func Symbolic() bool             { return false }
// Terminates states that the code up to the matching Terminates(0, "") returns within n engine steps (SSA
// instructions); natively a no-op (a spinning call shows as a test timeout in the replay).
func Terminates(n int, label string) {}

func Tier() int {
	if os.Getenv("VERIF_TIER") == "thorough" {
		return 1
	}
	return 0
}

// Yield is a point where the engine may let all other goroutines run until they block. Natively: a short sleep.
func Yield() { time.Sleep(2 * time.Millisecond) }

// SetCarrier tells the engine what the stubbed token finder of hagall-common ("header", "query", "cookie")
// returns. Natively the harness builds a real HTTP request instead.
func SetCarrier(name, token string) {}

// CorruptBytes returns a single-field corruption of valid: mode 0 = two junk bytes prepended, 1 = first byte
// dropped, 2 = last byte flipped. (Engine: fresh opaque bytes constrained accordingly.)
func CorruptBytes(valid []byte, mode int) []byte {
	switch mode {
	case 0:
		return append([]byte{0xde, 0xad}, valid...)
	case 1:
		if len(valid) == 0 {
			return []byte{1}
		}
		return append([]byte{}, valid[1:]...)
	}
	out := append([]byte{}, valid...)
	if len(out) == 0 {
		return []byte{1}
	}
	out[len(out)-1] ^= 0x01
	return out
}

// GoroutinesIn counts the goroutines (other than the caller) that have a frame of a function whose name
// contains substr.
func GoroutinesIn(substr string) int {
	buf := make([]byte, 1<<20)
	buf = buf[:runtime.Stack(buf, true)]
	n := 0
	for i, g := range strings.Split(string(buf), "\n\n") {
		if i == 0 {
			continue // the caller
		}
		if strings.Contains(g, substr) {
			n++
		}
	}
	return n
}

// Sleep lets time pass: natively a real sleep, under the engine the clock advances by at least d.
func Sleep(d time.Duration) {
	if !veriftime.Advance(d) {
		time.Sleep(d)
	}
}

// ConcreteClock makes the engine's clock concrete: every time.Now() advances by step nanoseconds
// (0 = back to an arbitrary non-decreasing clock). Natively the real clock is used.
func ConcreteClock(step int64) { veriftime.Control(step) }

// NCSHold / NCSRelease: the k-th request to the credit service is received but not answered until the release.
// Natively no-ops: the harness's recording endpoint follows the same plan.
func NCSHold(k int) {}
func NCSRelease()   {}

// NCSFail tells the engine's credit-service stub that the k-th request (0-based) is received and then fails.
// Natively a no-op: the harness's own recording endpoint follows the same plan.
func NCSFail(k int) {}

// NCSPosts returns the receipts posted to the (stubbed) credit service. Engine only: natively the harness
// owns a recording HTTP endpoint instead.
func NCSPosts() []ncsclient.ReceiptPayload { panic("verifnd.NCSPosts is engine-only") }

// Preempt sets the preemption bound of the Par blocks that follow (overrides the check's setting).
func Preempt(n int) { preemptOverride = n }

var preemptOverride = -1

// Par runs the functions concurrently. Natively: real goroutines (used under -race).
func Par(fs ...func()) {
	if ParRunner != nil && os.Getenv("VERIFND_SCHED") == "1" {
		mp := 2
		if os.Getenv("VERIFND_MAXPRE") != "" {
			fmt.Sscanf(os.Getenv("VERIFND_MAXPRE"), "%d", &mp)
		}
		if preemptOverride >= 0 {
			mp = preemptOverride
		}
		ParRunner(fs, schedule, mp)
		return
	}
	var wg sync.WaitGroup
	for _, f := range fs {
		wg.Add(1)
		go func(f func()) {
			defer wg.Done()
			f()
		}(f)
	}
	wg.Wait()
}

// Quiesce lets background goroutines settle.
func Quiesce() { time.Sleep(60 * time.Millisecond) }

// FireTickers: natively wait long enough for every ticker of period d to fire at least once.
func FireTickers(d time.Duration) { time.Sleep(3*d + 50*time.Millisecond) }

// Gauge returns the sum over all label tuples of the named gauge in the default registry.
func Gauge(name string) int64 {
	mfs, err := prometheus.DefaultGatherer.Gather()
	if err != nil {
		panic(err)
	}
	var sum float64
	for _, mf := range mfs {
		if mf.GetName() == name {
			for _, m := range mf.GetMetric() {
				if m.Gauge != nil {
					sum += m.Gauge.GetValue()
				}
			}
		}
	}
	return int64(sum)
}

// PokeU32 sets an unexported uint32 field reachable from ptr through dotted field names.
func PokeU32(ptr any, path string, v uint32) {
	rv := reflect.ValueOf(ptr).Elem()
	for _, name := range strings.Split(path, ".") {
		for rv.Kind() == reflect.Ptr {
			rv = rv.Elem()
		}
		rv = rv.FieldByName(name)
		if !rv.IsValid() {
			panic("verifnd.PokeU32: no field " + name)
		}
	}
	*(*uint32)(unsafe.Pointer(rv.UnsafeAddr())) = v
}
