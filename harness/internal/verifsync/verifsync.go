//go:build verif

// Package verifsync is a drop-in replacement for the parts of package sync that hagall uses. It is
// substituted for "sync" (by an import rewrite in a build overlay, never in the repository) when a
// schedule-dependent counterexample found by the symbolic engine is replayed natively: inside
// verifnd.Par the functions run on real goroutines but strictly one at a time, and at every
// synchronisation operation a controller follows the solver's schedule (the same decision points, in
// the same order, as the engine's scheduler). Outside Par the types behave like their sync originals.
package verifsync

import (
	"bytes"
	"fmt"
	"os"
	"runtime"
	"strconv"
	"sync"
	"time"
)

type Locker = sync.Locker
type Map = sync.Map
type Pool = sync.Pool
type Cond = sync.Cond

func NewCond(l Locker) *Cond { return sync.NewCond(l) }

type thread struct {
	id        int
	gid       int64
	wake      chan struct{}
	done      bool
	canGo     func() bool // nil: runnable; otherwise probe of the blocking condition
	skipPoint bool
}

type controller struct {
	mu       sync.Mutex
	active   bool
	threads  []*thread
	sched    []int
	pos      int
	preempts int
	maxPre   int
	allDone  chan struct{}
	desync   int
}

var ctl controller

func gid() int64 {
	var buf [64]byte
	b := buf[:runtime.Stack(buf[:], false)]
	b = bytes.TrimPrefix(b, []byte("goroutine "))
	i := bytes.IndexByte(b, ' ')
	n, _ := strconv.ParseInt(string(b[:i]), 10, 64)
	return n
}

func (c *controller) self() *thread {
	if !c.active {
		return nil
	}
	g := gid()
	c.mu.Lock()
	defer c.mu.Unlock()
	for _, t := range c.threads {
		if t.gid == g {
			return t
		}
	}
	return nil
}

// decide consumes the next schedule decision among n alternatives (0 when the schedule is exhausted).
func (c *controller) decide(n int) int {
	if n <= 1 {
		return 0
	}
	if c.pos >= len(c.sched) {
		c.desync++
		return 0
	}
	k := c.sched[c.pos]
	c.pos++
	if k >= n {
		c.desync++
		fmt.Printf("VERIFND-SCHED-DESYNC decision %d of %d alternatives\n", k, n)
		return 0
	}
	return k
}

// RunPar runs fs one at a time following sched (decisions in the engine's order).
func RunPar(fs []func(), sched []int, maxPre int) {
	c := &ctl
	c.mu.Lock()
	c.threads = nil
	c.sched, c.pos, c.preempts, c.maxPre = sched, 0, 0, maxPre
	c.allDone = make(chan struct{})
	c.active = true
	for i, f := range fs {
		t := &thread{id: i, wake: make(chan struct{}, 1)}
		c.threads = append(c.threads, t)
		ready := make(chan struct{})
		go func(t *thread, f func()) {
			t.gid = gid()
			close(ready)
			<-t.wake
			f()
			c.exit(t)
		}(t, f)
		<-ready
	}
	first := c.threads[c.decide(len(c.threads))]
	c.mu.Unlock()
	first.wake <- struct{}{}
	<-c.allDone
	c.mu.Lock()
	c.active = false
	c.mu.Unlock()
}

// next picks the thread to run when the current one cannot continue. Called with c.mu held.
func (c *controller) next(self *thread) *thread {
	deadline := time.Now().Add(3 * time.Second)
	for {
		var movable []*thread
		alive := 0
		for _, t := range c.threads {
			if t.done {
				continue
			}
			alive++
			if t.canGo == nil || t.canGo() {
				movable = append(movable, t)
			}
		}
		if alive == 0 {
			return nil
		}
		if len(movable) > 0 {
			return movable[c.decide(len(movable))]
		}
		if time.Now().After(deadline) {
			fmt.Println("VERIFND-DEADLOCK all concurrent threads are blocked")
			os.Stdout.Sync()
			os.Exit(3)
		}
		// a background goroutine may hold what we wait for
		c.mu.Unlock()
		time.Sleep(time.Millisecond)
		c.mu.Lock()
	}
}

func (c *controller) exit(t *thread) {
	c.mu.Lock()
	t.done = true
	n := c.next(t)
	c.mu.Unlock()
	if n == nil {
		close(c.allDone)
		return
	}
	n.wake <- struct{}{}
}

// Point is a scheduling point placed by the build overlay before a message is queued for a client.
func Point() { point() }

// point is a scheduling point before a synchronisation operation.
func point() {
	c := &ctl
	t := c.self()
	if t == nil {
		return
	}
	c.mu.Lock()
	if c.preempts >= c.maxPre {
		c.mu.Unlock()
		return
	}
	var cands []*thread
	for _, o := range c.threads {
		if o != t && !o.done {
			cands = append(cands, o)
		}
	}
	if len(cands) == 0 {
		c.mu.Unlock()
		return
	}
	k := c.decide(len(cands) + 1)
	if os.Getenv("VERIFND_SCHED_DEBUG") != "" {
		_, f1, l1, _ := runtime.Caller(2)
		_, f2, l2, _ := runtime.Caller(3)
		fmt.Printf("SCHEDPOINT t%d k=%d %s:%d < %s:%d\n", t.id, k, f1, l1, f2, l2)
	}
	if k == 0 {
		c.mu.Unlock()
		return
	}
	c.preempts++
	target := cands[k-1]
	c.mu.Unlock()
	target.wake <- struct{}{}
	<-t.wake
}

// block parks the calling Par thread until probe() holds and the controller picks it again.
func block(t *thread, probe func() bool) {
	c := &ctl
	c.mu.Lock()
	t.canGo = probe
	n := c.next(t)
	if n == t {
		t.canGo = nil
		c.mu.Unlock()
		return
	}
	c.mu.Unlock()
	n.wake <- struct{}{}
	<-t.wake
	c.mu.Lock()
	t.canGo = nil
	c.mu.Unlock()
}

// ---- Mutex ----

type Mutex struct{ m sync.Mutex }

func (m *Mutex) Lock() {
	point()
	t := ctl.self()
	if t == nil {
		m.m.Lock()
		return
	}
	for !m.m.TryLock() {
		block(t, func() bool {
			if m.m.TryLock() {
				m.m.Unlock()
				return true
			}
			return false
		})
	}
}
func (m *Mutex) Unlock()       { point(); m.m.Unlock() }
func (m *Mutex) TryLock() bool { return m.m.TryLock() }

// ---- RWMutex ----

type RWMutex struct {
	m       sync.RWMutex
	pmu     sync.Mutex
	pending int // Par threads blocked in Lock: like Go's RWMutex, new readers wait behind them
}

func (m *RWMutex) pend(d int) {
	m.pmu.Lock()
	m.pending += d
	m.pmu.Unlock()
}

func (m *RWMutex) npending() int {
	m.pmu.Lock()
	defer m.pmu.Unlock()
	return m.pending
}

func (m *RWMutex) Lock() {
	point()
	t := ctl.self()
	if t == nil {
		m.m.Lock()
		return
	}
	pended := false
	for !m.m.TryLock() {
		if !pended {
			m.pend(1)
			pended = true
		}
		block(t, func() bool {
			if m.m.TryLock() {
				m.m.Unlock()
				return true
			}
			return false
		})
	}
	if pended {
		m.pend(-1)
	}
}
func (m *RWMutex) Unlock() { point(); m.m.Unlock() }
func (m *RWMutex) RLock() {
	point()
	t := ctl.self()
	if t == nil {
		m.m.RLock()
		return
	}
	for m.npending() > 0 || !m.m.TryRLock() {
		block(t, func() bool {
			if m.npending() > 0 {
				return false
			}
			if m.m.TryRLock() {
				m.m.RUnlock()
				return true
			}
			return false
		})
	}
}
func (m *RWMutex) RUnlock()        { point(); m.m.RUnlock() }
func (m *RWMutex) TryLock() bool   { return m.m.TryLock() }
func (m *RWMutex) TryRLock() bool  { return m.m.TryRLock() }
func (m *RWMutex) RLocker() Locker { return m.m.RLocker() }

// ---- Once ----

type Once struct {
	mu      sync.Mutex
	done    bool
	running bool
}

func (o *Once) Do(f func()) {
	point()
	t := ctl.self()
	for {
		o.mu.Lock()
		if o.done {
			o.mu.Unlock()
			return
		}
		if !o.running {
			o.running = true
			o.mu.Unlock()
			defer func() {
				o.mu.Lock()
				o.done, o.running = true, false
				o.mu.Unlock()
			}()
			f()
			return
		}
		o.mu.Unlock()
		if t == nil {
			time.Sleep(50 * time.Microsecond)
			continue
		}
		block(t, func() bool {
			o.mu.Lock()
			defer o.mu.Unlock()
			return o.done || !o.running
		})
	}
}

// ---- WaitGroup ----

type WaitGroup struct {
	mu sync.Mutex
	n  int
	wg sync.WaitGroup
}

func (w *WaitGroup) Add(d int) {
	w.mu.Lock()
	w.n += d
	w.mu.Unlock()
	w.wg.Add(d)
}
func (w *WaitGroup) Done() {
	point()
	w.mu.Lock()
	w.n--
	w.mu.Unlock()
	w.wg.Done()
}
func (w *WaitGroup) Wait() {
	point()
	t := ctl.self()
	if t == nil {
		w.wg.Wait()
		return
	}
	for {
		w.mu.Lock()
		z := w.n == 0
		w.mu.Unlock()
		if z {
			return
		}
		block(t, func() bool {
			w.mu.Lock()
			defer w.mu.Unlock()
			return w.n == 0
		})
	}
}

// Desyncs reports how many schedule decisions could not be followed.
func Desyncs() int { return ctl.desync }
