//go:build verif

// Package veriftime replaces package time in models/signed_latency.go (import rewrite in the native build
// overlay only) so that a harness can put the latency measurement on a controlled clock: with the clock
// controlled, every Now() advances by a fixed step and verifnd.Sleep advances it by the requested amount
// without waiting — the same clock the symbolic engine uses under verifnd.ConcreteClock.
package veriftime

import (
	"sync"
	"time"
)

type Time = time.Time
type Duration = time.Duration

var (
	mu         sync.Mutex
	controlled bool
	step       int64
	offset     int64
	base       = time.Now()
)

var inUse bool

// MarkInUse is called from the init of the file whose clock import was swapped: only a binary that really reads
// its clock through this package may be put on the controlled clock (elsewhere verifnd.Sleep must really wait).
func MarkInUse() { inUse = true }

// Control switches the controlled clock on (step > 0) or off.
func Control(stepNS int64) {
	mu.Lock()
	controlled, step = stepNS > 0 && inUse, stepNS
	mu.Unlock()
}

// Advance moves the controlled clock forward; it reports whether the clock is controlled.
func Advance(d time.Duration) bool {
	mu.Lock()
	defer mu.Unlock()
	if controlled {
		offset += int64(d)
	}
	return controlled
}

func Now() time.Time {
	mu.Lock()
	defer mu.Unlock()
	if !controlled {
		return time.Now()
	}
	offset += step
	return base.Add(time.Duration(offset))
}
