//go:build verif

package http

import (
	"context"
	nethttp "net/http"
	"net/http/httptest"
	"net/url"
	"time"

	hds "github.com/aukilabs/hagall-common/hdsclient"
	httpcmn "github.com/aukilabs/hagall-common/http"
	"github.com/aukilabs/hagall/internal/verifnd"
)

// makeToken returns one of the realisable token cases for the given server secret.
func makeToken(secret string) (tok string, valid bool, name string) {
	switch verifnd.Choice(6) {
	case 4:
		// a well-formed, unexpired token signed with the empty key: what a client can forge against a server
		// that holds no secret
		t, _ := httpcmn.GenerateHagallUserAccessToken("app", "", time.Hour)
		return t, false, "empty_key"
	case 0:
		if secret == "" {
			return "", false, "none"
		}
		t, _ := httpcmn.GenerateHagallUserAccessToken("app", secret, time.Hour)
		return t, true, "valid"
	case 1:
		t, _ := httpcmn.GenerateHagallUserAccessToken("app", "another-secret", time.Hour)
		return t, false, "other_secret"
	case 2:
		if secret == "" {
			return "", false, "none"
		}
		t, _ := httpcmn.GenerateHagallUserAccessToken("app", secret, -time.Hour)
		return t, false, "expired"
	case 3:
		s := verifnd.Str()
		verifnd.Assume(s != "")
		return s, false, "garbage"
	}
	return "", false, "none"
}

// VerifC15Gate: every combination of the three carriers (header, query string, cookie), each empty or
// carrying a valid / foreign-secret / expired / arbitrary token, against a server that holds a secret or none.
// Admitted iff the first non-empty carrier holds a token that verifies against the current secret; a rejected
// smoke-test request gets 401 and never reaches the protected handler.
func VerifC15Gate() {
	verifnd.ConcreteClock(1000000) // token lifetimes are on the clock; expiry over time is VerifC15Expiry's subject
	secret := ""
	switch verifnd.Choice(2) {
	case 0:
		secret = "server-secret"
	}
	client := hds.NewClient()
	client.SetServerData("server-id", secret)
	if secret != "" && verifnd.Bool() {
		// secret rotation: tokens for the old secret stop being valid
		client.SetServerData("server-id", "rotated-secret")
		_ = secret
	}
	cur := client.Secret()

	var toks [3]string
	var valids [3]bool
	var names [3]string
	for i := range toks {
		toks[i], valids[i], names[i] = makeToken(secret)
		if valids[i] && cur != secret {
			valids[i] = false
		}
	}
	// an arbitrary string is not one of the server-issued tokens
	for i := range toks {
		for j := range toks {
			if names[i] == "garbage" && i != j && names[j] != "garbage" && names[j] != "none" {
				verifnd.Assume(toks[i] != toks[j])
			}
		}
	}
	// the token examined is the first non-empty carrier: header, then query, then cookie
	admit := false
	first := "none"
	for i := range toks {
		if toks[i] != "" {
			admit = valids[i]
			first = names[i]
			break
		}
	}
	var r *nethttp.Request
	if verifnd.Symbolic() {
		r = &nethttp.Request{Header: nethttp.Header{}}
		verifnd.SetCarrier("header", toks[0])
		verifnd.SetCarrier("query", toks[1])
		verifnd.SetCarrier("cookie", toks[2])
	} else {
		r = httptest.NewRequest("GET", "http://relay.test/", nil)
		if toks[0] != "" {
			r.Header.Set("Authorization", "Bearer "+toks[0])
		}
		if toks[1] != "" {
			q := url.Values{}
			q.Set("access_token", toks[1])
			r.URL.RawQuery = q.Encode()
		}
		if toks[2] != "" {
			r.AddCookie(&nethttp.Cookie{Name: "access_token", Value: toks[2]})
		}
	}

	// WebSocket handshake gate
	err := VerifyAuthToken(context.Background(), client)(nil, r)
	verifnd.Assert((err == nil) == admit, "C15.handshake.admitted_iff_valid_token", first)

	// smoke-test gate
	entered := 0
	rec := &vRecorder{h: nethttp.Header{}}
	VerifyAuthTokenHandler(client, func(w nethttp.ResponseWriter, r *nethttp.Request) { entered++ })(rec, r)
	verifnd.Assert((entered == 1) == admit, "C15.smoketest.handler_entered_iff_valid_token", first)
	verifnd.Assert(entered <= 1, "C15.smoketest.handler_entered_at_most_once")
	if !admit {
		verifnd.Assert(rec.code == nethttp.StatusUnauthorized, "C15.smoketest.rejected_with_401", first)
	}
	verifnd.Observe("c15", verifnd.B2U(admit), uint64(entered))
	verifnd.Reach("C15.gate.done")
	verifnd.Reach("C15.first." + first)
}

// vRecorder is a minimal ResponseWriter.
type vRecorder struct {
	h    nethttp.Header
	code int
	n    int
}

func (v *vRecorder) Header() nethttp.Header { return v.h }
func (v *vRecorder) Write(b []byte) (int, error) {
	if v.code == 0 {
		v.code = 200
	}
	v.n += len(b)
	return len(b), nil
}
func (v *vRecorder) WriteHeader(c int) {
	if v.code == 0 {
		v.code = c
	}
}

// VerifC15Expiry: the same token presented twice on the same carrier: once while valid, once after its
// lifetime has elapsed (the server holding the same secret or a rotated one). A verdict must never outlive the
// token: what the library says about the token just before a request bounds what the gate may do.
func VerifC15Expiry() {
	verifnd.ConcreteClock(1000000) // 1 ms per clock reading; natively the real clock
	secret := "server-secret"
	client := hds.NewClient()
	client.SetServerData("server-id", secret)
	tok, _ := httpcmn.GenerateHagallUserAccessToken("app", secret, time.Second)
	mkReq := func() *nethttp.Request {
		if verifnd.Symbolic() {
			verifnd.SetCarrier("header", tok)
			return &nethttp.Request{Header: nethttp.Header{}}
		}
		r := httptest.NewRequest("GET", "http://relay.test/", nil)
		r.Header.Set("Authorization", "Bearer "+tok)
		return r
	}
	// the two gates are built once, as cmd/main.go mounts them, and serve every request
	entered := 0
	handshake := VerifyAuthToken(context.Background(), client)
	smoke := VerifyAuthTokenHandler(client, func(w nethttp.ResponseWriter, r *nethttp.Request) { entered++ })
	gate := func(phase string) {
		r := mkReq()
		validBefore := httpcmn.VerifyHagallUserAccessToken(tok, client.Secret()) == nil
		err := handshake(nil, r)
		entered = 0
		smoke(&vRecorder{h: nethttp.Header{}}, r)
		if !validBefore {
			verifnd.Assert(err != nil, "C15.expiry.handshake_rejects_invalid_token", phase)
			verifnd.Assert(entered == 0, "C15.expiry.smoketest_rejects_invalid_token", phase)
		} else if phase == "fresh" {
			verifnd.Assert(err == nil && entered == 1, "C15.expiry.fresh_token_admitted")
		}
	}
	gate("fresh")
	switch verifnd.Choice(3) {
	case 0:
		verifnd.Sleep(1500 * time.Millisecond)
		gate("after_expiry")
	case 1:
		client.SetServerData("server-id", "rotated-secret")
		gate("after_rotation")
	case 2:
		client.SetServerData("server-id", "")
		gate("after_unregistration")
	}
	verifnd.Reach("C15.expiry.done")
}
