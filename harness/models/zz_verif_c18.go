//go:build verif

package models

import (
	"time"

	"github.com/aukilabs/hagall-common/messages/hagallpb"
	hwebsocket "github.com/aukilabs/hagall-common/websocket"
	"github.com/aukilabs/hagall/internal/verifnd"
	"github.com/ethereum/go-ethereum/crypto"
	"google.golang.org/protobuf/proto"
)

type vCapture struct {
	sent []hwebsocket.ProtoMsg
}

func (v *vCapture) Send(m hwebsocket.ProtoMsg) { v.sent = append(v.sent, m) }
func (v *vCapture) SendMsg(hwebsocket.Msg)     {}

// VerifC18Stats: the arithmetic of the report for a measurement of n rounds whose latencies are arbitrary
// (bounded) microsecond counts: 0 <= min <= mean <= max, p95 and last within [min, max], last = latency of
// the final round. The rounds are fed through the real Start/OnPing with the engine's clock advancing by
// arbitrary amounts; map iteration order in OnPing is arbitrary.
func VerifC18Stats() {
	key, _ := crypto.GenerateKey()
	cap := &vCapture{}
	var s SignedLatency
	n := 3
	s.Start(key, cap, 7, uint32(n), "uuid", "client", "wallet")
	var lastID uint32
	var issued []uint32
	for round := 0; round < n; round++ {
		verifnd.Assert(len(cap.sent) == round+1, "setup.stats.ping_issued")
		ping := cap.sent[len(cap.sent)-1].(*hagallpb.Response)
		lastID = ping.RequestId
		// server ping ids are pairwise distinct (a collision needs two pings exactly 2^32 ns apart: outside the claim)
		for _, old := range issued {
			verifnd.Assume(old != lastID)
		}
		issued = append(issued, lastID)
		err := s.OnPing(lastID)
		verifnd.Assert(err == nil, "setup.stats.ping_accepted")
		// each round trip takes less than 2^36 ns (about 68 s)
		m := s.PingRequests[lastID]
		verifnd.Assume(m.End.Sub(m.Start) < time.Duration(1)<<36)
	}
	verifnd.Assert(len(cap.sent) == n+1, "setup.stats.response_sent")
	resp, ok := cap.sent[len(cap.sent)-1].(*hagallpb.SignedLatencyResponse)
	verifnd.Assert(ok, "setup.stats.response_type")
	var ld hagallpb.LatencyData
	verifnd.Assert(proto.Unmarshal(resp.Data, &ld) == nil, "setup.stats.decodes")
	lastRound := s.PingRequests[lastID]
	lastLatency := float32(lastRound.End.Sub(lastRound.Start).Microseconds())
	verifnd.Assert(ld.Min >= 0, "C18.stats.min_non_negative")
	verifnd.Assert(ld.Min <= ld.Mean, "C18.stats.min_le_mean")
	verifnd.Assert(ld.Mean <= ld.Max, "C18.stats.mean_le_max")
	verifnd.Assert(verifnd.And(ld.P95 >= ld.Min, ld.P95 <= ld.Max), "C18.stats.p95_within_min_max")
	verifnd.Assert(verifnd.And(ld.Last >= ld.Min, ld.Last <= ld.Max), "C18.stats.last_within_min_max")
	verifnd.Assert(ld.Last == lastLatency, "C18.stats.last_is_final_round")
	// min and max are attained
	isMin, isMax := false, false
	for _, m := range s.PingRequests {
		l := float32(m.End.Sub(m.Start).Microseconds())
		isMin = verifnd.Or(isMin, l == ld.Min)
		isMax = verifnd.Or(isMax, l == ld.Max)
		verifnd.Assert(l >= ld.Min, "C18.stats.min_is_lower_bound")
		verifnd.Assert(l <= ld.Max, "C18.stats.max_is_upper_bound")
	}
	verifnd.Assert(verifnd.And(isMin, isMax), "C18.stats.min_max_attained")
	verifnd.Reach("C18.stats.done")
}
