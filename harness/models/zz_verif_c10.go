//go:build verif

package models

import (
	"github.com/aukilabs/hagall/internal/verifnd"
)

// VerifC10Generator: one inductive step of the id source from a fully symbolic pre-state:
// counter c, a pool of released ids and a set of live (issued, not released) ids, related by the
// representation invariant. One New() or one Reuse(x) preserves the invariant and New never returns a live id.
func VerifC10Generator() {
	maxPool, maxLive := 3, 4
	var g SequentialIDGenerator
	c := verifnd.U32()
	verifnd.Assume(c < 0xFFFFFFFF) // wrap-around after 2^32-1 allocations is outside the claim
	g.currentID = c
	np := verifnd.Choice(maxPool + 1)
	nl := verifnd.Choice(maxLive + 1)
	pool := make([]uint32, np)
	live := make([]uint32, nl)
	all := []uint32{}
	for i := range pool {
		pool[i] = verifnd.U32()
		all = append(all, pool[i])
	}
	for i := range live {
		live[i] = verifnd.U32()
		all = append(all, live[i])
	}
	// invariant: every issued id is in [1, c]; pool and live are disjoint and duplicate-free
	inv := true
	for i, x := range all {
		inv = verifnd.And(inv, x >= 1, x <= c)
		for j := i + 1; j < len(all); j++ {
			inv = verifnd.And(inv, x != all[j])
		}
	}
	verifnd.Assume(inv)
	if np > 0 {
		g.reusableIDs = make(map[uint32]struct{})
		for _, p := range pool {
			g.reusableIDs[p] = struct{}{}
		}
	}

	op := verifnd.Choice(2)
	if op == 0 {
		id := g.New()
		fresh := id != 0
		for _, l := range live {
			fresh = verifnd.And(fresh, id != l)
		}
		verifnd.Assert(fresh, "C10.generator.new_id_not_live")
		live = append(live, id)
		verifnd.Observe("c10.new", uint64(id), uint64(c))
	} else {
		if nl == 0 {
			return
		}
		k := verifnd.Choice(nl)
		x := live[k]
		g.Reuse(x)
		live = append(live[:k:k], live[k+1:]...)
		verifnd.Observe("c10.reuse", uint64(x), uint64(c))
	}
	// invariant afterwards
	post := true
	for p := range g.reusableIDs {
		post = verifnd.And(post, p >= 1, p <= g.currentID)
		for _, l := range live {
			post = verifnd.And(post, p != l)
		}
	}
	for i, l := range live {
		post = verifnd.And(post, l >= 1, l <= g.currentID)
		for j := i + 1; j < len(live); j++ {
			post = verifnd.And(post, l != live[j])
		}
	}
	verifnd.Assert(post, "C10.generator.invariant_preserved")
	verifnd.Reach("C10.generator.done")
}

func maxInt(a, b int) int {
	if a > b {
		return a
	}
	return b
}

// VerifC10Types: component type names and ids stay one-to-one under one AddType with an arbitrary name.
func VerifC10Types() {
	s := newEntityComponentStore()
	n := verifnd.Choice(4)
	names := make([]string, n)
	ids := make([]uint32, n)
	for i := range names {
		names[i] = verifnd.Str()
		ok := names[i] != ""
		for j := 0; j < i; j++ {
			ok = verifnd.And(ok, names[i] != names[j])
		}
		verifnd.Assume(ok)
		ids[i] = s.AddType(names[i])
	}
	for i := range ids {
		for j := i + 1; j < n; j++ {
			verifnd.Assert(ids[i] != ids[j], "C10.types.distinct_names_distinct_ids")
		}
		verifnd.Assert(ids[i] != 0, "C10.types.nonzero_id")
	}
	name := verifnd.Str()
	id := s.AddType(name)
	isOld := false
	for i := range names {
		isOld = verifnd.Or(isOld, name == names[i])
		verifnd.Assert(verifnd.Iff(name == names[i], id == ids[i]), "C10.types.idempotent_per_name")
	}
	id2 := s.AddType(name)
	verifnd.Assert(id2 == id, "C10.types.idempotent_per_name")
	gotName, err := s.GetTypeName(id)
	verifnd.Assert(err == nil && gotName == name, "C10.types.id_resolves_to_name")
	gotID, err2 := s.GetTypeID(name)
	verifnd.Assert(err2 == nil && gotID == id, "C10.types.name_resolves_to_id")
	for i := range names {
		nm, e1 := s.GetTypeName(ids[i])
		ii, e2 := s.GetTypeID(names[i])
		verifnd.Assert(e1 == nil && e2 == nil && nm == names[i] && ii == ids[i], "C10.types.existing_mappings_kept")
	}
	// an id that was never issued resolves to nothing
	q := verifnd.U32()
	unk := q != id
	for i := range ids {
		unk = verifnd.And(unk, q != ids[i])
	}
	_, e3 := s.GetTypeName(q)
	verifnd.Assert(verifnd.Implies(unk, e3 != nil), "C10.types.unknown_id_not_found")
	verifnd.Observe("c10.types", uint64(n), uint64(id), verifnd.B2U(isOld))
	verifnd.Reach("C10.types.done")
}
