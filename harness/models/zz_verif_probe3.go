//go:build verif

package models

import (
	"math"
	"sync"
	"time"

	"github.com/aukilabs/hagall/internal/verifnd"
)

// VerifProbeConstructs3: clock and timer constructs.
func VerifProbeConstructs3() {
	t0 := time.Now()
	d := time.Since(t0)
	verifnd.Assert(d >= 0, "probe3.since_non_negative")
	verifnd.Assert(!time.Now().Before(t0), "probe3.now_monotonic")
	verifnd.Assert(time.Until(t0) <= 0, "probe3.until")
	dl := t0.Add(time.Minute)
	verifnd.Assert(dl.After(t0) && dl.Sub(t0) == time.Minute, "probe3.add_sub")
	verifnd.Assert(time.Duration(1500)*time.Millisecond == 1500*time.Millisecond && (2*time.Second).Seconds() == 2, "probe3.duration")
	select {
	case <-time.After(time.Hour):
		verifnd.Assert(false, "probe3.after_not_elapsed")
	default:
	}
	fired := false
	var mu sync.Mutex
	tm := time.AfterFunc(time.Hour, func() { mu.Lock(); fired = true; mu.Unlock() })
	tm.Stop()
	mu.Lock()
	verifnd.Assert(!fired, "probe3.afterfunc_stopped")
	mu.Unlock()
	verifnd.Assert(math.Max(1, 2) == 2 && math.Abs(-3) == 3 && math.Floor(2.5) == 2, "probe3.math")
	verifnd.Reach("probe3.done")
}
