//go:build verif

package models

import (
	"github.com/aukilabs/hagall-common/messages/hagallpb"
	"github.com/aukilabs/hagall/internal/verifnd"
)

// refStore is the reference model: a map keyed by (type, entity).
type refComp struct {
	tid, eid uint32
	data     []byte
}

type refStore struct {
	types []uint32 // registered type ids
	comps []refComp
}

func (r *refStore) find(tid, eid uint32) int {
	for i, c := range r.comps {
		if c.tid == tid && c.eid == eid {
			return i
		}
	}
	return -1
}

func (r *refStore) registered(tid uint32) bool {
	for _, t := range r.types {
		if t == tid {
			return true
		}
	}
	return false
}

// VerifC12Store: the real EntityComponentStore next to the reference map; a pre-state built by real calls
// with up to 2 types x 2 entities, then two arbitrary operations in a row with symbolic ids on both; results, errors
// and listings must agree.
func VerifC12Store() {
	s := newEntityComponentStore()
	ref := &refStore{}
	t1 := s.AddType("t1")
	t2 := s.AddType("t2")
	ref.types = []uint32{t1, t2}
	ents := []uint32{verifnd.U32(), verifnd.U32()}
	verifnd.Assume(verifnd.And(ents[0] != ents[1], ents[0] != 0, ents[1] != 0))
	for _, t := range ref.types {
		for _, e := range ents {
			if verifnd.Bool() {
				d := verifnd.Bytes(32)
				err := s.Add(&hagallpb.EntityComponent{EntityComponentTypeId: t, EntityId: e, Data: d})
				verifnd.Assert(err == nil, "setup.store.add")
				ref.comps = append(ref.comps, refComp{t, e, d})
			}
		}
	}
	opName := "add"
	var op int
	for round := 0; round < 2; round++ {
		tid, eid := verifnd.U32(), verifnd.U32()
		data := verifnd.Bytes(32)
		op = verifnd.Choice(6)
		opName = "add"
		switch op {
		case 0:
			err := s.Add(&hagallpb.EntityComponent{EntityComponentTypeId: tid, EntityId: eid, Data: data})
			i := ref.find(tid, eid)
			wantOK := ref.registered(tid) && i < 0
			verifnd.Assert((err == nil) == wantOK, "C12.store.add_only_registered_type_once_per_pair")
			if wantOK {
				ref.comps = append(ref.comps, refComp{tid, eid, data})
			}
		case 1:
			opName = "update"
			err := s.Update(&hagallpb.EntityComponent{EntityComponentTypeId: tid, EntityId: eid, Data: data})
			i := ref.find(tid, eid)
			verifnd.Assert((err == nil) == (i >= 0), "C12.store.update_only_existing")
			if i >= 0 {
				ref.comps[i].data = data
			}
		case 2:
			opName = "delete"
			ok := s.Delete(tid, eid)
			i := ref.find(tid, eid)
			verifnd.Assert(ok == (i >= 0), "C12.store.delete_reports_existence")
			if i >= 0 {
				ref.comps = append(ref.comps[:i:i], ref.comps[i+1:]...)
			}
		case 3:
			opName = "delete_by_entity"
			s.DeleteByEntityID(eid)
			var keep []refComp
			for _, c := range ref.comps {
				if c.eid != eid {
					keep = append(keep, c)
				}
			}
			ref.comps = keep
		case 4:
			opName = "list_by_entity"
			got := s.ListByEntityID(eid)
			n := 0
			for _, c := range ref.comps {
				if c.eid == eid {
					n++
				}
			}
			verifnd.Assert(len(got) == n, "C12.store.list_by_entity_exact")
		case 5:
			opName = "none"
		}
		// listings agree with the reference, as sets
		for _, t := range ref.types {
			got := s.List(t)
			n := 0
			for _, c := range ref.comps {
				if c.tid == t {
					n++
					found := false
					for _, g := range got {
						if g.EntityId == c.eid && g.EntityComponentTypeId == t {
							found = verifnd.Or(found, verifnd.SameBytes(g.Data, c.data))
						}
					}
					verifnd.Assert(found, "C12.store.list_contains_current_components", opName)
				}
			}
			verifnd.Assert(len(got) == n, "C12.store.list_exact", opName)
		}
		all := s.ListAll()
		verifnd.Assert(len(all) == len(ref.comps), "C12.store.list_all_exact", opName)
		// an unregistered type lists nothing
		q := verifnd.U32()
		verifnd.Assume(q != t1 && q != t2)
		verifnd.Assert(len(s.List(q)) == 0, "C12.store.unregistered_type_lists_nothing", opName)
	}
	verifnd.Observe("c12", uint64(op), uint64(len(s.ListAll())))
	verifnd.Reach("C12.store.done")
	verifnd.Reach("C12.store.op." + opName)
}
