//go:build verif

package models

import (
	"sync"
	"sync/atomic"
	"time"

	"github.com/aukilabs/hagall/internal/verifnd"
)

// VerifC10ParIDs: concurrent allocations and releases on one id source never hand out the same id twice.
func VerifC10ParIDs() {
	var g SequentialIDGenerator
	a := g.New()
	b := g.New()
	var x, y uint32
	switch verifnd.Choice(3) {
	case 0:
		verifnd.Par(func() { x = g.New() }, func() { y = g.New() })
		verifnd.Assert(x != y && x != a && x != b && y != a && y != b, "C10.par.new_new_distinct")
	case 1:
		verifnd.Par(func() { x = g.New() }, func() { g.Reuse(a) })
		verifnd.Assert(x != b, "C10.par.new_reuse_never_live_id")
		y = g.New()
		verifnd.Assert(y != b && y != x, "C10.par.new_after_reuse_distinct")
	case 2:
		g.Reuse(a)
		verifnd.Par(func() { x = g.New() }, func() { y = g.New() })
		verifnd.Assert(x != y && x != b && y != b, "C10.par.pool_pop_distinct")
	}
	verifnd.Reach("C10.par.done")
}

// VerifC10ParTypes: the same name registered concurrently gets one id; different names different ids.
func VerifC10ParTypes() {
	s := newEntityComponentStore()
	var x, y uint32
	same := verifnd.Bool()
	n2 := "b"
	if same {
		n2 = "a"
	}
	verifnd.Par(func() { x = s.AddType("a") }, func() { y = s.AddType(n2) })
	verifnd.Assert((x == y) == same, "C10.par.types_one_to_one")
	verifnd.Reach("C10.partypes.done")
}

// VerifC09FrameWorker: the session's frame worker goroutine against a connection that unregisters its frame
// handler (as leaveSession does before the connection's scheduler is closed): once the cancel function has
// returned, the handler is never run again — in no interleaving — and the worker ends when the session closes.
func VerifC09FrameWorker() {
	const frame = 50 * time.Millisecond
	s := NewSession(1, frame)
	var cancelled atomic.Bool
	runs := 0
	var mu sync.Mutex
	stop := s.HandleFrame(func() {
		verifnd.Assert(!cancelled.Load(), "C09.frame.handler_not_run_after_cancel")
		mu.Lock()
		runs++
		mu.Unlock()
	})
	other := 0
	s.HandleFrame(func() {
		mu.Lock()
		other++
		mu.Unlock()
	})
	verifnd.FireTickers(frame) // a tick is due when the block starts
	verifnd.Par(func() { s.StartDispatchFrames() }, func() {
		stop()
		cancelled.Store(true)
		s.Close()
	})
	_ = other
	verifnd.Reach("C09.frame.done")
}
