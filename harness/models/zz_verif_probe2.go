//go:build verif

package models

import (
	"bytes"
	"context"
	"errors"
	"fmt"
	"maps"
	"slices"
	"strconv"
	"sync"
	"time"

	"github.com/aukilabs/hagall/internal/verifnd"
)

var errProbe = errors.New("probe")

// VerifProbeConstructs2: more constructs (strconv, bytes, errors, fmt, maps, slices, context, timers, goroutines).
func VerifProbeConstructs2() {
	verifnd.Assert(strconv.Itoa(42) == "42" && strconv.FormatUint(7, 10) == "7", "probe2.strconv.format")
	n, err := strconv.ParseUint("15", 10, 32)
	verifnd.Assert(err == nil && n == 15, "probe2.strconv.parse")
	verifnd.Assert(bytes.Equal([]byte{1, 2}, []byte{1, 2}) && bytes.HasPrefix([]byte("abc"), []byte("ab")), "probe2.bytes")
	w := fmt.Errorf("wrapped: %w", errProbe)
	verifnd.Assert(errors.Is(w, errProbe), "probe2.errors")
	m := map[uint32]string{1: "a", 2: "b"}
	keys := slices.Sorted(maps.Keys(m))
	verifnd.Assert(len(keys) == 2 && keys[0] == 1, "probe2.maps")
	xs := []int{1, 2, 3, 4}
	xs = slices.Delete(xs, 1, 2)
	verifnd.Assert(len(xs) == 3 && xs[1] == 3 && slices.Index(xs, 4) == 2, "probe2.slices")
	ctx, cancel := context.WithTimeout(context.Background(), time.Hour)
	select {
	case <-ctx.Done():
		verifnd.Assert(false, "probe2.context.not_done_yet")
	default:
	}
	cancel()
	<-ctx.Done()
	verifnd.Assert(ctx.Err() != nil, "probe2.context.cancelled")
	var wg sync.WaitGroup
	var mu sync.Mutex
	total := 0
	for i := 1; i <= 3; i++ {
		wg.Add(1)
		go func(k int) {
			defer wg.Done()
			mu.Lock()
			total += k
			mu.Unlock()
		}(i)
	}
	wg.Wait()
	verifnd.Assert(total == 6, "probe2.goroutines")
	type pair struct {
		a uint32
		b string
	}
	ps := map[pair]int{{1, "x"}: 1}
	ps[pair{1, "x"}]++
	verifnd.Assert(ps[pair{1, "x"}] == 2, "probe2.struct_keys")
	verifnd.Observe("probe2", n, uint64(total), uint64(len(xs)))
	verifnd.Reach("probe2.done")
}
