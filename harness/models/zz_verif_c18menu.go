//go:build verif

package models

import (
	"time"

	"github.com/aukilabs/hagall-common/messages/hagallpb"
	"github.com/aukilabs/hagall/internal/verifnd"
	"github.com/ethereum/go-ethereum/crypto"
	"google.golang.org/protobuf/proto"
)

// latencyMenu: round-trip times chosen to sit on the interesting boundaries of the report's arithmetic:
// 0 us, small values, and values above 2^24 us where float32 can no longer represent every integer.
func latencyMenu(k int) time.Duration {
	switch k {
	case 0:
		return 0
	case 1:
		return 5 * time.Microsecond
	case 2:
		return 7 * time.Microsecond
	case 3:
		return 16777218 * time.Microsecond // three of these: the float32 sum rounds up and the mean exceeds them
	case 4:
		return 16777222 * time.Microsecond // three of these: the float32 sum rounds down and the mean falls below them
	}
	return 33000003 * time.Microsecond
}

// VerifC18StatsMenu: the statistics of the report for 3 rounds whose latencies are drawn from a concrete menu
// (controlled clock; the symbolic-latency version does not finish on the available solvers): 0 <= min <= mean
// <= max, p95 and last within [min, max], min/max attained, last = latency of the final round. Map iteration
// order inside OnPing is arbitrary. (Concrete values: decided by the executor, not by the solver.)
func VerifC18StatsMenu() {
	verifnd.ConcreteClock(1)
	key, _ := crypto.GenerateKey()
	cap := &vCapture{}
	var s SignedLatency
	n := 3
	s.Start(key, cap, 7, uint32(n), "uuid", "client", "wallet")
	lats := make([]float32, n)
	var lastID uint32
	var issued []uint32
	for round := 0; round < n; round++ {
		verifnd.Assert(len(cap.sent) == round+1, "setup.stats.ping_issued")
		ping := cap.sent[len(cap.sent)-1].(*hagallpb.Response)
		lastID = ping.RequestId
		// server ping ids are pairwise distinct (a collision needs two pings exactly 2^32 ns apart: outside the claim)
		for _, old := range issued {
			verifnd.Assume(old != lastID)
		}
		issued = append(issued, lastID)
		d := latencyMenu(verifnd.Choice(6))
		verifnd.Sleep(d)
		lats[round] = float32(d.Microseconds())
		verifnd.Assert(s.OnPing(lastID) == nil, "setup.stats.ping_accepted")
	}
	verifnd.Assert(len(cap.sent) == n+1, "setup.stats.response_sent")
	resp, ok := cap.sent[len(cap.sent)-1].(*hagallpb.SignedLatencyResponse)
	verifnd.Assert(ok, "setup.stats.response_type")
	var ld hagallpb.LatencyData
	verifnd.Assert(proto.Unmarshal(resp.Data, &ld) == nil, "setup.stats.decodes")
	mn, mx := lats[0], lats[0]
	for _, l := range lats {
		if l < mn {
			mn = l
		}
		if l > mx {
			mx = l
		}
	}
	verifnd.Assert(ld.Min == mn, "C18.stats.min_is_the_smallest_latency")
	verifnd.Assert(ld.Max == mx, "C18.stats.max_is_the_largest_latency")
	verifnd.Assert(ld.Min <= ld.Mean && ld.Mean <= ld.Max, "C18.stats.min_le_mean_le_max")
	verifnd.Assert(ld.P95 >= ld.Min && ld.P95 <= ld.Max, "C18.stats.p95_within_min_max")
	verifnd.Assert(ld.Last == lats[n-1], "C18.stats.last_is_final_round")
	verifnd.Observe("c18menu", verifnd.F32Bits(ld.Min), verifnd.F32Bits(ld.Max), verifnd.F32Bits(ld.Mean))
	verifnd.Reach("C18.statsmenu.done")
}
