//go:build verif

package models

import (
	"github.com/aukilabs/hagall-common/messages/hagallpb"
	"github.com/aukilabs/hagall/internal/verifnd"
)

// VerifSelfTestModels pushes the inputs of models' own unit tests through the engine (see
// VerifSelfTestDagaz): id generator, component store, session registry.
func VerifSelfTestModels() {
	ok := true
	chk := func(c bool, what string) {
		verifnd.Assert(c, "selftest.models", what)
		ok = ok && c
	}
	var g SequentialIDGenerator
	chk(g.New() == 1 && g.New() == 2, "SequentialIDGenerator.New")
	g.Reuse(1)
	chk(g.New() == 1 && g.New() == 3, "SequentialIDGenerator.Reuse")

	s := newEntityComponentStore()
	id := s.AddType("a")
	chk(id == 1 && s.AddType("a") == 1 && s.AddType("b") == 2, "AddType")
	n, err := s.GetTypeName(1)
	chk(err == nil && n == "a", "GetTypeName")
	_, err = s.GetTypeName(9)
	chk(err != nil, "GetTypeName.unknown")
	i2, err := s.GetTypeID("b")
	chk(err == nil && i2 == 2, "GetTypeID")
	chk(s.Add(&hagallpb.EntityComponent{EntityComponentTypeId: 1, EntityId: 7, Data: []byte("x")}) == nil, "Add")
	chk(s.Add(&hagallpb.EntityComponent{EntityComponentTypeId: 1, EntityId: 7}) != nil, "Add.twice")
	chk(s.Add(&hagallpb.EntityComponent{EntityComponentTypeId: 5, EntityId: 7}) != nil, "Add.unregistered")
	chk(s.Update(&hagallpb.EntityComponent{EntityComponentTypeId: 1, EntityId: 7, Data: []byte("y")}) == nil, "Update")
	chk(s.Update(&hagallpb.EntityComponent{EntityComponentTypeId: 1, EntityId: 8}) != nil, "Update.absent")
	chk(len(s.List(1)) == 1 && len(s.List(2)) == 0 && len(s.ListAll()) == 1 && len(s.ListByEntityID(7)) == 1, "List")
	chk(s.Subscribe(1, 3) == nil && s.Subscribe(9, 3) != nil, "Subscribe")
	called := 0
	s.Notify(1, func(ids []uint32) { called += len(ids) })
	s.Notify(2, func(ids []uint32) { called += 100 })
	chk(called == 1, "Notify")
	s.UnsubscribeByParticipant(3)
	s.Notify(1, func(ids []uint32) { called += 100 })
	chk(called == 1, "UnsubscribeByParticipant")
	chk(s.Delete(1, 7) && !s.Delete(1, 7) && !s.Delete(9, 7), "Delete")
	s.Add(&hagallpb.EntityComponent{EntityComponentTypeId: 1, EntityId: 7})
	s.Add(&hagallpb.EntityComponent{EntityComponentTypeId: 2, EntityId: 7})
	s.DeleteByEntityID(7)
	chk(len(s.ListAll()) == 0, "DeleteByEntityID")

	e := &Entity{ID: 1}
	e.SetPose(Pose{PX: 1, RW: 2})
	chk(e.Pose().PX == 1 && e.ToProtobuf().Pose.Rw == 2, "Entity.Pose")
	p := &Participant{ID: 4}
	p.AddEntity(e)
	chk(len(p.EntityIDs()) == 1, "Participant.AddEntity")
	p.RemoveEntity(e)
	chk(len(p.EntityIDs()) == 0, "Participant.RemoveEntity")
	verifnd.Observe("selftest.models", verifnd.B2U(ok), uint64(called))
	verifnd.Reach("selftest.models.done")
}
