//go:build verif

package models

import (
	"slices"
	"sort"
	"strings"
	"sync"
	"sync/atomic"

	"github.com/aukilabs/hagall/internal/verifnd"
)

type probeCounter struct {
	n  atomic.Uint32
	m  sync.Map
	mu sync.Mutex
}

func probeGeneric[T comparable](xs []T, x T) bool {
	for _, v := range xs {
		if v == x {
			return true
		}
	}
	return false
}

// VerifProbeConstructs exercises language and library constructs that a change to the repository might
// introduce (sync/atomic, generics, slices, sort, strings, strings.Builder, sync.Map): the engine's models must
// agree with the native run (the witness replay compares the observed values).
func VerifProbeConstructs() {
	var c probeCounter
	a := c.n.Add(1)
	var raw uint32
	b := atomic.AddUint32(&raw, 2)
	ok := atomic.CompareAndSwapUint32(&raw, 2, 5)
	verifnd.Assert(a == 1 && b == 2 && ok && atomic.LoadUint32(&raw) == 5, "probe.atomic")
	xs := []uint32{3, 1, 2}
	verifnd.Assert(slices.Contains(xs, 2) && probeGeneric(xs, 3), "probe.generics")
	sort.Slice(xs, func(i, j int) bool { return xs[i] < xs[j] })
	slices.Sort(xs)
	verifnd.Assert(xs[0] == 1 && xs[2] == 3, "probe.sort")
	verifnd.Assert(strings.HasPrefix("tedx1", "ted") && strings.Contains("abc", "b"), "probe.strings")
	var sb strings.Builder
	sb.WriteString("a")
	verifnd.Assert(sb.Len() == 1, "probe.builder")
	c.m.Store("k", 1)
	v, _ := c.m.Load("k")
	verifnd.Assert(v.(int) == 1, "probe.syncmap")
	var av atomic.Value
	av.Store("x")
	verifnd.Assert(av.Load().(string) == "x", "probe.atomicvalue")
	var ap atomic.Pointer[probeCounter]
	ap.Store(&c)
	verifnd.Assert(ap.Load() == &c, "probe.atomicpointer")
	verifnd.Observe("probe", uint64(a), uint64(b), uint64(xs[0]), uint64(sb.Len()), uint64(v.(int)))
	verifnd.Reach("probe.done")
}
