#!/bin/bash
# like verify_seed.sh but for re-seeds made on the fixed tree (worktrees under /tmp/seed2); replaces /verif/seeded/<id>, keeping the stale one as <id>_prefix
set -u
id=$1
wt=${SEEDROOT:-/tmp/seed2}/$id; out=$wt/_out
export GOFLAGS=-mod=readonly GOPROXY=off GOSUMDB=off GOTOOLCHAIN=local
cd $wt || exit 2
git checkout -q -- . ; git clean -fdq -e _out
demo_path=$(cat $out/demo_path.txt | tr -d '[:space:]')
log=$out/verify.log; : > $log
fail() { echo "SEED2 $id: FAIL: $1" | tee -a $log; git checkout -q -- .; rm -f $wt/$demo_path; exit 1; }
git apply --check $out/patch.diff || fail "patch does not apply"
cp $out/zz_seed_demo_test.go $wt/$demo_path
pkg=./$(dirname $demo_path)
timeout 300 go test -vet=off -count=1 -run 'TestSeedDemo$' $pkg >>$log 2>&1 || fail "demo fails on pristine tree"
rm -f $wt/$demo_path
git apply $out/patch.diff
go build ./... >>$log 2>&1 || fail "does not build"
go test -vet=off -count=1 -json ./... > $out/suite.json 2>>$log
python3 - $out/suite.json >>$log <<'PY' || fail "existing suite fails with patch"
import json,sys
bad=[]
for l in open(sys.argv[1]):
    try: e=json.loads(l)
    except: continue
    if e.get('Action')=='fail' and e.get('Test') and not e['Test'].startswith('TestHandlerHandleSignedLatency'):
        bad.append(e['Package']+'::'+e['Test'])
print('failing tests with patch:',bad)
sys.exit(1 if bad else 0)
PY
cp $out/zz_seed_demo_test.go $wt/$demo_path
if timeout 300 go test -vet=off -count=1 -run 'TestSeedDemo$' $pkg >>$log 2>&1; then fail "demo passes with patch"; fi
rm -f $wt/$demo_path $out/suite.json
git checkout -q -- .
dst=$id${SEEDSUFFIX:-}
if [ -z "${SEEDSUFFIX:-}" ] && [ -d /verif/seeded/$id ]; then n=1; while [ -e /verif/seeded/${id}_superseded$n ]; do n=$((n+1)); done; mv /verif/seeded/$id /verif/seeded/${id}_superseded$n; fi
rm -rf /verif/seeded/$dst; mkdir -p /verif/seeded/$dst
cp $out/patch.diff $out/zz_seed_demo_test.go $out/demo_path.txt /verif/seeded/$dst/
python3 - $out/meta.json /verif/seeded/$dst/meta.json <<'PY'
import json,sys,subprocess
m=json.load(open(sys.argv[1]))
m['base_commit']=subprocess.check_output(['git','-C','/repo','rev-parse','--short','HEAD']).decode().strip()
m['confirmed_by_main_session']="tools/verify_seed2.sh on the tree with the fix: commits: patch applies; go build ./... ok; go test -vet=off -count=1 ./... passes with patch (flaky TestHandlerHandleSignedLatency ignored); TestSeedDemo passes without and fails with the patch"
json.dump(m,open(sys.argv[2],'w'),indent=1)
PY
echo "SEED2 $id: CONFIRMED -> /verif/seeded/$dst"
