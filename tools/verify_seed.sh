#!/bin/bash
# usage: verify_seed.sh <dir-under-/tmp/seed> [<dest-id>]
# Confirms a seeded change in its scratch worktree: compiles, existing suite passes, demo fails with it and passes without.
set -u
id=$1; dest=${2:-$1}
wt=/tmp/seed/$id; out=$wt/_out
export GOFLAGS=-mod=readonly GOPROXY=off GOSUMDB=off GOTOOLCHAIN=local
cd $wt || exit 2
git checkout -q -- . ; git clean -fdq -e _out
demo_path=$(cat $out/demo_path.txt | tr -d '[:space:]')
log=$out/verify.log; : > $log
fail() { echo "SEED $id: FAIL: $1" | tee -a $log; git checkout -q -- .; rm -f $wt/$demo_path; exit 1; }
git apply --check $out/patch.diff || fail "patch does not apply"
# 1. demo passes on pristine tree
cp $out/zz_seed_demo_test.go $wt/$demo_path
pkg=./$(dirname $demo_path)
go test -vet=off -count=1 -run 'TestSeedDemo$' $pkg >>$log 2>&1 || fail "demo fails on pristine tree"
rm -f $wt/$demo_path
# 2. with patch: builds, suite passes
git apply $out/patch.diff
go build ./... >>$log 2>&1 || fail "does not build"
go test -vet=off -count=1 -json ./... > $out/suite.json 2>>$log
python3 - $out/suite.json >>$log <<'PY' || fail "existing suite fails with patch"
import json,sys
bad=[]
for l in open(sys.argv[1]):
    try: e=json.loads(l)
    except: continue
    if e.get('Action')=='fail' and e.get('Test') and not e['Test'].startswith('TestHandlerHandleSignedLatency'):
        bad.append(e['Package']+'::'+e['Test'])
print('failing tests with patch:',bad)
sys.exit(1 if bad else 0)
PY
# 3. demo fails with patch
cp $out/zz_seed_demo_test.go $wt/$demo_path
if go test -vet=off -count=1 -run 'TestSeedDemo$' $pkg >>$log 2>&1; then fail "demo passes with patch"; fi
rm -f $wt/$demo_path $out/suite.json
git checkout -q -- .
mkdir -p /verif/seeded/$dest
cp $out/patch.diff $out/zz_seed_demo_test.go $out/demo_path.txt /verif/seeded/$dest/
python3 - $out/meta.json /verif/seeded/$dest/meta.json <<'PY'
import json,sys
m=json.load(open(sys.argv[1]))
m['confirmed_by_main_session']="tools/verify_seed.sh: patch applies on pristine worktree; go build ./... ok; go test -vet=off -count=1 ./... passes with patch (flaky TestHandlerHandleSignedLatency ignored); TestSeedDemo passes without and fails with the patch"
json.dump(m,open(sys.argv[2],'w'),indent=1)
PY
echo "SEED $id: CONFIRMED -> /verif/seeded/$dest"
