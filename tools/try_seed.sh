#!/bin/bash
# usage: try_seed.sh <seed-dir> <harness-fns> [extra symgo args]  — applies a seeded patch to /repo, runs harnesses, reverts.
d=$1; fns=$2; shift 2
p=/verif/seeded/$d/patch.diff; [ -f $p ] || p=/tmp/seed/$d/_out/patch.diff
trap 'git -C /repo checkout -- . ; git -C /repo status --short' EXIT
git -C /repo apply $p || exit 2
timeout 600 /verif/bin/symgo run -fn $fns -workers 16 "$@" 2>&1 | grep -v "reached\|loaded in"
