#!/bin/bash
# cross-solver check: the same harnesses on z3 4.8.12, z3 5.1.0 (z3-new) and cvc5 1.0 must give the same verdict counts
cd /verif
run() { timeout 1200 bin/symgo run "$@" -workers ${VERIF_WORKERS:-8} 2>&1 | grep "== Verif" | sed 's/steps=[0-9]* //; s/solver=.*//'; }
for s in z3 z3-new cvc5; do
  { run -fn VerifC14Custom,VerifC05Owner,VerifC16Action,VerifC16Asset,VerifC04Step,VerifC19Submit -solver $s
    run -pkg github.com/aukilabs/hagall/models -fn VerifC10Generator,VerifC10Types -solver $s
    run -pkg github.com/aukilabs/hagall/http -fn VerifC15Gate -solver $s; } > /tmp/xcheck.$s
done
if diff -q /tmp/xcheck.z3 /tmp/xcheck.z3-new && diff -q /tmp/xcheck.z3 /tmp/xcheck.cvc5; then echo "XCHECK OK: identical verdict counts on z3, z3-new, cvc5"; cat /tmp/xcheck.z3; else echo "XCHECK MISMATCH"; diff /tmp/xcheck.z3 /tmp/xcheck.z3-new; diff /tmp/xcheck.z3 /tmp/xcheck.cvc5; exit 1; fi
