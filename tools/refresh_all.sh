#!/bin/bash
# runs every registered check on /repo and rewrites evidence/*.json (run before committing evidence)
cd /verif
for p in $(python3 -c "import json;print(' '.join(c['property_id'] for c in json.load(open('MANIFEST.json'))['checks']))"); do
  timeout 1800 bin/check $p ${1:-quick} 2>&1 | grep "^check \|^VIOLATION\|^ENGINE\|^UNCONFIRMED\|^INCONCLUSIVE" | cut -c1-200
done
