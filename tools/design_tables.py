#!/usr/bin/env python3
# Regenerates the two generated tables of DESIGN.md in place:
#   §I.3 (per check: harnesses and quick-tier numbers) from checks.json + evidence/*.json
#   §I.9 (per seed: what it needs, which assertion caught it) from seeded/*/meta.json + seeded/MATRIX.tsv
# Markers in DESIGN.md: <!-- TABLE:I3 --> ... <!-- /TABLE:I3 -->, <!-- TABLE:I9 --> ... <!-- /TABLE:I9 -->
import json, os, re, sys
V = '/verif'
checks = json.load(open(f'{V}/checks.json'))

def i3():
    out = ['| id | harnesses (`Verif…`) | quick tier on this sandbox (paths, solver queries, wall) |', '|----|-----------|-------|']
    for pid in sorted(checks):
        hs = [h['fn'].replace('Verif', '') + ('°' if h.get('tiers') == ['thorough'] else '') for h in checks[pid]['harnesses']]
        ev = f'{V}/evidence/{pid}.json'
        num = 'n/a'
        if os.path.exists(ev):
            e = json.load(open(ev))
            cov = e.get('coverage', {})
            paths = sum(h.get('paths', 0) for h in cov.get('harnesses', []))
            q = sum(h.get('queries', 0) for h in cov.get('harnesses', []))
            num = f"{paths} paths, {q} queries, {e.get('wall_s', 0):.0f} s ({e.get('tier','?')})"
        out.append(f"| {pid} | {', '.join('`'+h+'`' for h in hs)} | {num} |")
    out.append('')
    out.append('° thorough tier only.')
    return '\n'.join(out)

def i9():
    rows = {}
    mt = f'{V}/seeded/MATRIX.tsv'
    if os.path.exists(mt):
        for l in open(mt):
            c = l.rstrip('\n').split('\t')
            rows[c[0]] = c
    out = ['| seed | file changed | what it needs to manifest | caught by (first violation line) | exit | time |', '|------|------|---------------------------|----------------------------------|------|------|']
    for d in sorted(os.listdir(f'{V}/seeded')):
        p = f'{V}/seeded/{d}'
        if not os.path.isdir(p) or '_superseded' in d:
            continue
        m = json.load(open(f'{p}/meta.json'))
        files = sorted(set(re.findall(r'^\+\+\+ b/(\S+)', open(f'{p}/patch.diff').read(), re.M)))
        needs = ' '.join(str(m.get('needs', '')).split())
        if len(needs) > 170:
            needs = needs[:170] + '…'
        r = rows.get(d)
        if r:
            first = r[5].strip()
            mm = re.match(r'(\S+) label=(\S+) keys=\[(.*?)\]', first)
            caught = f"`{mm.group(2)} [{mm.group(3)[:60]}]`" if mm else ('—' if r[2] == '0' else first[:60])
            ex, t = r[2], r[4] + ' s'
        else:
            caught, ex, t = 'not run', '?', '?'
        out.append(f"| {d} | {', '.join(files)} | {needs.replace('|', '/')} | {caught} | {ex} | {t} |")
    return '\n'.join(out)

s = open(f'{V}/DESIGN.md').read()
for tag, gen in (('I3', i3), ('I9', i9)):
    a, b = f'<!-- TABLE:{tag} -->', f'<!-- /TABLE:{tag} -->'
    if a in s and b in s:
        s = s[:s.index(a) + len(a)] + '\n' + gen() + '\n' + s[s.index(b):]
    else:
        print('marker missing for', tag, file=sys.stderr)
open(f'{V}/DESIGN.md', 'w').write(s)
