#!/usr/bin/env python3
# prints the prompt given to a seeding sub-agent for property <id>: only the property text and its worktree.
import json,sys
pid=sys.argv[1]
root=sys.argv[2] if len(sys.argv)>2 else '/tmp/seed'
focus=sys.argv[3] if len(sys.argv)>3 else ''
angle=sys.argv[4] if len(sys.argv)>4 else ''
for l in open('/verif/properties.jsonl'):
    p=json.loads(l)
    if p['id']==pid: break
focusline = f"For this round, make the change in {focus} (one of the files the property is anchored in), whichever function there you find most promising.\n\n" if focus else ""
if angle: focusline += f"For this round, prefer a breakage of this kind (the property quantifies over it): {angle}.\n\n"
print(f"""You are helping evaluate a verification effort for the Go project aukilabs/hagall (a WebSocket real-time relay server: sessions, participants, entities, entity components, plug-in modules). You have your own scratch git worktree of the repository at {root}/{pid} (work ONLY there; never touch /repo or /verif; do not read anything under /verif).

Here is a semantic property the code base is supposed to satisfy:

  Title: {p['title']}
  Statement: {p['statement']}
  Quantified over: {p['quantifier']['text']}
  Code the property is anchored in: {', '.join(p['anchors']['files'])}

{focusline}Your task: produce ONE realistic change to the non-test Go sources in {root}/{pid} (the kind of regression a developer could plausibly introduce in a refactor, optimisation or feature tweak) that BREAKS this property, while
  (a) the repository still compiles (cd {root}/{pid} && go build ./... ), and
  (b) the existing test suite still passes: cd {root}/{pid} && GOFLAGS=-mod=readonly GOPROXY=off go test -vet=off -count=1 ./...   (one test, TestHandlerHandleSignedLatency, is known to be flaky; ignore it), and
  (c) the breakage needs something specific to manifest - a particular multi-step sequence of operations, an unusual input or boundary value, a particular interleaving, a fault at a particular point, or two cooperating sites that each look fine alone - NOT something ordinary use or the obvious happy path would expose at once. Prefer subtle (e.g. an off-by-one at a boundary, a missing cleanup on one of several paths, a check moved after a mutation, state keyed by the wrong id, a comparison changed in a corner case) over blatant. Do not modify existing tests. Keep the diff small (ideally < 30 changed lines).

Also write a demonstration: a NEW Go test file (name it zz_seed_demo_test.go, in whichever package is most convenient, e.g. in-package tests in websocket/ can drive the unexported handler directly, see websocket/handler_test.go and websocket/testing.go for how existing tests drive the server) containing a test named TestSeedDemo that FAILS with your change applied and PASSES on the unmodified code. Verify both directions yourself (use `git diff > _out/patch.diff; git checkout -- .; git apply _out/patch.diff` etc. inside {root}/{pid}; do NOT use `git stash`: the stash is shared between worktrees and other people are working in theirs).

The sandbox has no network: use GOFLAGS=-mod=readonly GOPROXY=off for go commands, and do not try to download anything.

When done, leave in {root}/{pid}/_out/ exactly these files:
  patch.diff   - `git diff` of the non-test source change only (must apply with `git apply` on the pristine tree)
  zz_seed_demo_test.go - the demonstration test, plus a file demo_path.txt with its repo-relative destination path (e.g. websocket/zz_seed_demo_test.go)
  meta.json    - {{"property": "{pid}", "summary": "<what was changed>", "needs": "<what is needed for the breakage to manifest>", "demo_cmd": "<go test command that runs the demo>", "checked": "<what you ran and observed>"}}
and leave the worktree with your change reverted (pristine) at the end. Report briefly what you changed and why it breaks the property.""")
