#!/bin/bash
# runs every kept seed against the quick check of its property on a scratch copy of /repo (VERIF_REPO), never on /repo itself
wt=/tmp/seedmatrix; out=/tmp/seedmatrix_out; rm -rf $out; mkdir -p $out
# the checks run from a snapshot of /verif, so that harnesses can be edited while a matrix is running
snap=/tmp/verif_snap.$$; rm -rf $snap; mkdir -p $snap; cp -r /verif/harness /verif/checks.json /verif/known_findings.json /verif/bin $snap/; mkdir -p $snap/engine; cp /verif/engine/go.mod /verif/engine/go.sum $snap/engine/ 2>/dev/null
git -C /repo worktree remove --force $wt 2>/dev/null; git -C /repo worktree prune
git -C /repo worktree add --detach $wt HEAD >/dev/null 2>&1 || exit 2
for d in /verif/seeded/*/; do
  id=$(basename $d); case $id in *_superseded*) continue;; esac
  if [ -n "${2:-}" ] && ! echo " $2 " | grep -q " $id "; then continue; fi
  prop=$(python3 -c "import json;print(json.load(open('$d/meta.json'))['property'])")
  git -C $wt checkout -q -- . ; git -C $wt clean -fdq
  if ! git -C $wt apply $d/patch.diff 2>/dev/null; then echo "$id $prop: patch does not apply"; continue; fi
  t0=$(date +%s)
  VERIF_REPO=$wt VERIF_EVIDENCE_DIR=$out/ev timeout 1500 $snap/bin/symgo check -verif $snap $prop ${1:-quick} > $out/$id.log 2>&1; rc=$?
  t1=$(date +%s)
  nv=$(grep -c '^VIOLATION' $out/$id.log); first=$(grep -A1 '^VIOLATION' $out/$id.log | sed -n 2p | cut -c1-120)
  echo "$id $prop: exit=$rc violations=$nv time=$((t1-t0))s $first"
  printf '%s\t%s\t%s\t%s\t%s\t%s\n' "$id" "$prop" "$rc" "$nv" "$((t1-t0))" "$first" >> $out/matrix.tsv
done
git -C /repo worktree remove --force $wt
rm -rf $snap
# merge into the kept table (one row per seed, latest run wins)
python3 - $out/matrix.tsv /verif/seeded/MATRIX.tsv <<'PY'
import sys,os
rows={}
for f in (sys.argv[2],sys.argv[1]):
    if os.path.exists(f):
        for l in open(f):
            c=l.rstrip('\n').split('\t')
            if len(c)>=6: rows[c[0]]=c
open(sys.argv[2],'w').write(''.join('\t'.join(rows[k])+'\n' for k in sorted(rows)))
PY
