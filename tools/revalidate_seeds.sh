#!/bin/bash
# re-validates every kept seed against /repo's current HEAD in a scratch worktree
export GOFLAGS=-mod=readonly GOPROXY=off GOSUMDB=off GOTOOLCHAIN=local
wt=/tmp/seed/_reval; rm -rf $wt; git -C /repo worktree prune; git -C /repo worktree add --detach $wt HEAD >/dev/null 2>&1 || exit 2
for d in /verif/seeded/*/; do
  id=$(basename $d); cd $wt; git checkout -q -- .; git clean -fdq
  demo=$(cat $d/demo_path.txt | tr -d '[:space:]'); pkg=./$(dirname $demo)
  if ! git apply --check $d/patch.diff 2>/dev/null; then echo "$id: STALE (patch no longer applies on HEAD)"; continue; fi
  cp $d/zz_seed_demo_test.go $wt/$demo
  if ! timeout 300 go test -vet=off -count=1 -run 'TestSeedDemo$' $pkg >/dev/null 2>&1; then echo "$id: STALE (demo fails on HEAD without the patch)"; rm -f $wt/$demo; continue; fi
  git apply $d/patch.diff
  if timeout 300 go test -vet=off -count=1 -run 'TestSeedDemo$' $pkg >/dev/null 2>&1; then echo "$id: STALE (demo passes on HEAD with the patch: the breakage depended on behaviour that has been fixed)"; else echo "$id: VALID on HEAD"; fi
  rm -f $wt/$demo
done
cd /; git -C /repo worktree remove --force $wt
